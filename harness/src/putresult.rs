//! C12 (structural PutResult): build every pair of the specification's 15 values as real
//! `PutResult<u64, u64>` objects and log what `==`, `!=`, `clone` and copy say.
use crate::exec::tlc_payload;
use crate::sut::{s, u};
use caches::PutResult;
use serde_json::{json, Value};
use std::io::{BufRead, Write};

fn build(v: &Value) -> PutResult<u64, u64> {
    match s(v, "t") {
        "Put" => PutResult::Put,
        "Update" => PutResult::Update(u(v, "old")),
        "Evicted" => PutResult::Evicted { key: u(v, "ek"), value: u(v, "ev") },
        "EvictedAndUpdate" => PutResult::EvictedAndUpdate { evicted: (u(v, "ek"), u(v, "ev")), update: u(v, "old") },
        o => panic!("harness: unknown variant {o}"),
    }
}
fn back(r: &PutResult<u64, u64>) -> Value {
    match r {
        PutResult::Put => json!({"t":"Put"}),
        PutResult::Update(o) => json!({"t":"Update","old":o}),
        PutResult::Evicted { key, value } => json!({"t":"Evicted","ek":key,"ev":value}),
        PutResult::EvictedAndUpdate { evicted, update } => json!({"t":"EvictedAndUpdate","ek":evicted.0,"ev":evicted.1,"old":update}),
    }
}
pub fn run(a: &crate::Args) -> Value {
    let input = std::io::BufReader::new(std::fs::File::open(a.get("in").expect("--in")).expect("open"));
    let mut out = std::io::BufWriter::new(std::fs::File::create(a.get("out").expect("--out")).expect("create"));
    let mut n = 0u64;
    for line in input.lines() {
        let line = line.unwrap();
        let Some(p) = tlc_payload(&line, "PAIR") else { continue };
        let (x, y) = (build(&p["a"]), build(&p["b"]));
        #[allow(clippy::clone_on_copy)]
        let xc = x.clone();
        let xcopy = x; // Copy
        // clone_from into an existing value of every other shape: the destination becomes the source, field by field
        // (read back structurally, not through ==)
        let mut dst = y;
        dst.clone_from(&x);
        writeln!(out, "{}", json!({"a": p["a"], "b": p["b"], "eq": x == y, "ne": x != y, "clone_eq": xc == x, "copy_eq": xcopy == x,
                                   "clone_vs_b": xc == y, "back": back(&x), "clone_back": back(&xc), "clone_from_back": back(&dst),
                                   "dbg": format!("{:?}", x)})).unwrap();
        n += 1;
    }
    out.flush().unwrap();
    json!({"events": n, "tests": n, "panics": 0, "nontrivial": n, "by_kind": {}})
}
