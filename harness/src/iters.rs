//! C14: the iterator battery.  For every reachable state (TLC STATE lines), every list of the
//! cache and every iterator family, run words of next()/next_back() calls and log what the real
//! iterator did: yields, size_hint / len after every step, count(), clones taken at every
//! position, and - for the mutable families - the list after writing through the iterator.
use crate::exec::tlc_payload;
use crate::hashers::DynBH;
use crate::sut::{Arc, Env, Hold, Raw, Sut, TwoQ};
use crate::track::{TK, TV};
use caches::RawLRU;
use serde_json::{json, Value};
use std::io::{BufRead, Write};
use std::panic::{catch_unwind, AssertUnwindSafe};
use std::rc::Rc;

const DELTA: u64 = 100;

trait Item {
    fn kv(&self) -> [u64; 2];
    fn write(&mut self) {}
}
impl Item for (&TK, &TV) {
    fn kv(&self) -> [u64; 2] {
        [self.0.id.0, self.1.read()]
    }
}
impl Item for (&TK, &mut TV) {
    fn kv(&self) -> [u64; 2] {
        [self.0.id.0, self.1.read()]
    }
    fn write(&mut self) {
        self.1.val += DELTA;
    }
}
impl Item for &TK {
    fn kv(&self) -> [u64; 2] {
        [self.id.0, 0]
    }
}
impl Item for &TV {
    fn kv(&self) -> [u64; 2] {
        [0, self.read()]
    }
}
impl Item for &mut TV {
    fn kv(&self) -> [u64; 2] {
        [0, self.read()]
    }
    fn write(&mut self) {
        self.val += DELTA;
    }
}

fn item_json(o: Option<[u64; 2]>) -> Value {
    match o {
        Some(kv) => json!(kv),
        None => json!([]),
    }
}

struct Log {
    yields: Vec<Value>,
    hints: Vec<u64>,
    count: u64,
    clones: Vec<Value>,
    hint_consistent: bool,
    fin: &'static str,
    fin_items: Vec<Value>,
}
/// one step of a word: direction ('n' front / 'b' back) and skip (-1: next()/next_back(); k >= 0: nth(k)/nth_back(k))
pub type Step = (char, i64);
fn step<T, I: DoubleEndedIterator<Item = T>>(it: &mut I, st: Step) -> Option<T> {
    match st {
        ('n', k) if k < 0 => it.next(),
        ('n', k) => it.nth(k as usize),
        (_, k) if k < 0 => it.next_back(),
        (_, k) => it.nth_back(k as usize),
    }
}
/// how the rest of the iterator is consumed after the word, chosen by the word itself (deterministic)
fn fin_of(word: &[Step]) -> &'static str {
    let h = word.iter().fold(word.len() as i64, |a, s| a.wrapping_mul(31).wrapping_add(s.0 as i64 * 7 + s.1));
    ["count", "last", "fold", "rfold"][(h.rem_euclid(4)) as usize]
}
fn finish<T: Item, I: DoubleEndedIterator<Item = T>>(it: I, fin: &str, lg: &mut Log) {
    match fin {
        "count" => lg.count = it.count() as u64,
        "last" => lg.fin_items = vec![item_json(it.last().map(|x| x.kv()))],
        "fold" => lg.fin_items = it.fold(vec![], |mut a, x| {
            a.push(json!(x.kv()));
            a
        }),
        _ => lg.fin_items = it.rfold(vec![], |mut a, x| {
            a.push(json!(x.kv()));
            a
        }),
    }
}

fn hint_of<I: Iterator + ExactSizeIterator>(it: &I, ok: &mut bool) -> u64 {
    let (lo, hi) = it.size_hint();
    if hi != Some(lo) || it.len() != lo {
        *ok = false;
    }
    lo as u64
}

/// shared-reference families: Clone is available
fn run_shared<T: Item, I: DoubleEndedIterator<Item = T> + ExactSizeIterator + Clone>(mut it: I, word: &[Step]) -> Log {
    let mut lg = Log { yields: vec![], hints: vec![], count: 0, clones: vec![], hint_consistent: true, fin: fin_of(word), fin_items: vec![] };
    let drain = |c: I| -> Value { Value::Array(c.map(|x| json!(x.kv())).collect()) };
    lg.hints.push(hint_of(&it, &mut lg.hint_consistent));
    lg.clones.push(drain(it.clone()));
    for &st in word {
        let y = step(&mut it, st);
        lg.yields.push(item_json(y.map(|x| x.kv())));
        lg.hints.push(hint_of(&it, &mut lg.hint_consistent));
        lg.clones.push(drain(it.clone()));
    }
    let fin = lg.fin;
    finish(it, fin, &mut lg);
    lg
}
/// mutable families: every yielded value is written through the reference
fn run_mut<T: Item, I: DoubleEndedIterator<Item = T> + ExactSizeIterator>(mut it: I, word: &[Step]) -> Log {
    // (the rest of a mutable iterator is consumed without writing: count / last / fold / rfold only read)
    let mut lg = Log { yields: vec![], hints: vec![], count: 0, clones: vec![], hint_consistent: true, fin: fin_of(word), fin_items: vec![] };
    lg.hints.push(hint_of(&it, &mut lg.hint_consistent));
    for &st in word {
        let y = step(&mut it, st);
        lg.yields.push(item_json(y.map(|mut x| {
            let kv = x.kv();
            x.write();
            kv
        })));
        lg.hints.push(hint_of(&it, &mut lg.hint_consistent));
    }
    let fin = lg.fin;
    finish(it, fin, &mut lg);
    lg
}

pub const FAMILIES: [(&str, &str, &str, bool); 12] = [
    ("iter", "mru", "kv", false),
    ("iter_lru", "lru", "kv", false),
    ("keys", "mru", "k", false),
    ("keys_lru", "lru", "k", false),
    ("values", "mru", "v", false),
    ("values_lru", "lru", "v", false),
    ("into_iter", "mru", "kv", false),
    ("iter_mut", "mru", "kv", true),
    ("iter_lru_mut", "lru", "kv", true),
    ("values_mut", "mru", "v", true),
    ("values_lru_mut", "lru", "v", true),
    ("into_iter_mut", "mru", "kv", true),
];

/// the words run on a list of length n
fn words(n: usize, all: bool) -> Vec<Vec<Step>> {
    let m = n + 2;
    let plain = |c: char| (c, -1i64);
    let mut w: Vec<Vec<Step>> = vec![];
    if all {
        // every word of plain steps up to length n + 2 ...
        for len in 0..=m {
            for bits in 0..(1u32 << len) {
                w.push((0..len).map(|i| plain(if bits >> i & 1 == 0 { 'n' } else { 'b' })).collect());
            }
        }
        // ... and every word of length <= 2 over steps with skips 0..n (nth / nth_back), then one plain step from each end
        let toks: Vec<Step> = ['n', 'b'].iter().flat_map(|&c| (0..=(n as i64).min(3)).map(move |k| (c, k))).collect();
        for &a in &toks {
            w.push(vec![a]);
            w.push(vec![a, plain('n'), plain('b')]);
            for &b in &toks {
                w.push(vec![a, b]);
                w.push(vec![a, b, plain('b'), plain('n')]);
            }
        }
    } else {
        w.push(vec![plain('n'); m]);
        w.push(vec![plain('b'); m]);
        w.push((0..m).map(|i| plain(if i % 2 == 0 { 'n' } else { 'b' })).collect());
        w.push((0..m).map(|i| plain(if i % 2 == 0 { 'b' } else { 'n' })).collect());
        w.push((0..m).map(|i| plain(if i < m / 2 { 'n' } else { 'b' })).collect());
        w.push(vec![]);
        // skips: into the near half, just past the middle, to the last entry, one past the end
        let n = n as i64;
        let mut ks = vec![0, 1, n / 2, n / 2 + 1, n - 2, n - 1, n, n + 1];
        ks.retain(|&k| k >= 0);
        ks.sort();
        ks.dedup();
        for &k in &ks {
            for c in ['n', 'b'] {
                let o = if c == 'n' { 'b' } else { 'n' };
                w.push(vec![(c, k)]);
                w.push(vec![(c, k), plain(c), plain(o)]);
                w.push(vec![plain(o), (c, k), plain(c)]);
                w.push(vec![(c, k / 2), (o, k / 2), plain(c), plain(o)]);
                w.push(vec![(c, 1), (c, k), (c, 0)]);
            }
        }
    }
    w.sort();
    w.dedup();
    w
}
fn word_json(w: &[Step]) -> Value {
    Value::Array(w.iter().map(|s| json!([s.0.to_string(), s.1])).collect())
}

/// The content of one inner list read WITHOUT any iterator: the verification hook walks the `next` pointers, the key of
/// each node is read in place and its value looked up with `peek` on that list.  This is the list the iterators are judged
/// against (C14 is about the iterators, not about how the list got its order).
fn witness<E: caches::OnEvictCallback, S: std::hash::BuildHasher>(l: &RawLRU<TK, TV, E, S>) -> Vec<Value> {
    let a = l.verif_audit();
    a.fwd
        .iter()
        .map(|&addr| {
            let k: &TK = unsafe { &*((addr + a.key_offset) as *const TK) };
            json!([k.id.0, caches::Cache::peek(l, k).map(|v| v.read()).unwrap_or(0)])
        })
        .collect()
}

trait IterSut: Sut<TK> {
    const LISTS: &'static [&'static str];
    fn witness(&self, list: &str) -> Vec<Value>;
    fn run(&mut self, list: &str, fam: &str, word: &[Step]) -> Option<(Log, usize, Vec<Value>)>;
    fn list_len(&self, list: &str) -> usize;
}

macro_rules! fam_dispatch {
    ($fam:expr, $word:expr, $s:expr, $iter:ident, $iter_lru:ident, $keys:ident, $keys_lru:ident, $values:ident, $values_lru:ident,
     $iter_mut:ident, $iter_lru_mut:ident, $values_mut:ident, $values_lru_mut:ident) => {
        match $fam {
            "iter" => run_shared($s.$iter(), $word),
            "iter_lru" => run_shared($s.$iter_lru(), $word),
            "keys" => run_shared($s.$keys(), $word),
            "keys_lru" => run_shared($s.$keys_lru(), $word),
            "values" => run_shared($s.$values(), $word),
            "values_lru" => run_shared($s.$values_lru(), $word),
            "iter_mut" => run_mut($s.$iter_mut(), $word),
            "iter_lru_mut" => run_mut($s.$iter_lru_mut(), $word),
            "values_mut" => run_mut($s.$values_mut(), $word),
            "values_lru_mut" => run_mut($s.$values_lru_mut(), $word),
            _ => return None,
        }
    };
}
fn after<'a>(it: impl Iterator<Item = (&'a TK, &'a TV)>) -> Vec<Value> {
    it.map(|(k, v)| json!([k.id.0, v.read()])).collect()
}

impl IterSut for Raw<TK> {
    const LISTS: &'static [&'static str] = &["list"];
    fn list_len(&self, _: &str) -> usize {
        caches::Cache::len(self)
    }
    fn witness(&self, _: &str) -> Vec<Value> {
        witness(self)
    }
    fn run(&mut self, _list: &str, fam: &str, word: &[Step]) -> Option<(Log, usize, Vec<Value>)> {
        let lg = match fam {
            "into_iter" => run_shared((&*self).into_iter(), word),
            "into_iter_mut" => run_mut((&mut *self).into_iter(), word),
            f => fam_dispatch!(f, word, self, iter, iter_lru, keys, keys_lru, values, values_lru, iter_mut, iter_lru_mut, values_mut, values_lru_mut),
        };
        Some((lg, caches::Cache::len(self), after(self.iter())))
    }
}
impl IterSut for TwoQ<TK> {
    const LISTS: &'static [&'static str] = &["recent", "frequent", "ghost"];
    fn witness(&self, list: &str) -> Vec<Value> {
        let (r, f, g) = self.verif_parts();
        match list {
            "recent" => witness(r),
            "frequent" => witness(f),
            _ => witness(g),
        }
    }
    fn list_len(&self, list: &str) -> usize {
        match list {
            "recent" => self.recent_len(),
            "frequent" => self.frequent_len(),
            _ => self.ghost_len(),
        }
    }
    fn run(&mut self, list: &str, fam: &str, word: &[Step]) -> Option<(Log, usize, Vec<Value>)> {
        let lg = match list {
            "recent" => fam_dispatch!(fam, word, self, recent_iter, recent_iter_lru, recent_keys, recent_keys_lru, recent_values, recent_values_lru,
                recent_iter_mut, recent_iter_lru_mut, recent_values_mut, recent_values_lru_mut),
            "frequent" => fam_dispatch!(fam, word, self, frequent_iter, frequent_iter_lru, frequent_keys, frequent_keys_lru, frequent_values,
                frequent_values_lru, frequent_iter_mut, frequent_iter_lru_mut, frequent_values_mut, frequent_values_lru_mut),
            _ => fam_dispatch!(fam, word, self, ghost_iter, ghost_iter_lru, ghost_keys, ghost_keys_lru, ghost_values, ghost_values_lru,
                ghost_iter_mut, ghost_iter_lru_mut, ghost_values_mut, ghost_values_lru_mut),
        };
        let aft = match list {
            "recent" => after(self.recent_iter()),
            "frequent" => after(self.frequent_iter()),
            _ => after(self.ghost_iter()),
        };
        Some((lg, self.list_len(list), aft))
    }
}
impl IterSut for Arc<TK> {
    const LISTS: &'static [&'static str] = &["recent", "frequent", "recent_evict", "frequent_evict"];
    fn witness(&self, list: &str) -> Vec<Value> {
        let (r, f, re, fe) = self.verif_parts();
        match list {
            "recent" => witness(r),
            "frequent" => witness(f),
            "recent_evict" => witness(re),
            _ => witness(fe),
        }
    }
    fn list_len(&self, list: &str) -> usize {
        match list {
            "recent" => self.recent_len(),
            "frequent" => self.frequent_len(),
            "recent_evict" => self.recent_evict_len(),
            _ => self.frequent_evict_len(),
        }
    }
    fn run(&mut self, list: &str, fam: &str, word: &[Step]) -> Option<(Log, usize, Vec<Value>)> {
        let lg = match list {
            "recent" => fam_dispatch!(fam, word, self, recent_iter, recent_iter_lru, recent_keys, recent_keys_lru, recent_values, recent_values_lru,
                recent_iter_mut, recent_iter_lru_mut, recent_values_mut, recent_values_lru_mut),
            "frequent" => fam_dispatch!(fam, word, self, frequent_iter, frequent_iter_lru, frequent_keys, frequent_keys_lru, frequent_values,
                frequent_values_lru, frequent_iter_mut, frequent_iter_lru_mut, frequent_values_mut, frequent_values_lru_mut),
            "recent_evict" => fam_dispatch!(fam, word, self, recent_evict_iter, recent_evict_iter_lru, recent_evict_keys, recent_evict_keys_lru,
                recent_evict_values, recent_evict_values_lru, recent_evict_iter_mut, recent_evict_iter_lru_mut, recent_evict_values_mut,
                recent_evict_values_lru_mut),
            _ => fam_dispatch!(fam, word, self, frequent_evict_iter, frequent_evict_iter_lru, frequent_evict_keys, frequent_evict_keys_lru,
                frequent_evict_values, frequent_evict_values_lru, frequent_evict_iter_mut, frequent_evict_iter_lru_mut, frequent_evict_values_mut,
                frequent_evict_values_lru_mut),
        };
        let aft = match list {
            "recent" => after(self.recent_iter()),
            "frequent" => after(self.frequent_iter()),
            "recent_evict" => after(self.recent_evict_iter()),
            _ => after(self.frequent_evict_iter()),
        };
        Some((lg, self.list_len(list), aft))
    }
}

fn replay<S: IterSut>(cfg: &Value, env: &Env, path: &[Value]) -> Option<S> {
    let mut c = S::build(cfg, env).ok()?;
    for op in path {
        crate::exec::beat();
        let mut h: Hold<TK> = Hold::new();
        c.apply(op, &mut h);
    }
    Some(c)
}

fn run_kind<S: IterSut>(a: &crate::Args) -> Value {
    let cfg: Value = serde_json::from_str(a.get("cfg").expect("--cfg")).expect("cfg json");
    let env = Env { hasher: a.get("hasher").unwrap_or("std").to_string(), kh_table: Rc::new(vec![]), default_ctor: false };
    let all_words = a.has("all-words");
    let max_states = a.num("max-states", u64::MAX);
    let input: Box<dyn std::io::Read> = match a.get("in") {
        Some(p) => Box::new(std::fs::File::open(p).expect("open --in")),
        None => Box::new(std::io::stdin()),
    };
    let input = std::io::BufReader::new(input);
    let mut out = crate::exec::ShardWriter::new(a.get("out").map(|x| x.to_string()), a.num("shard", 0));
    let (mut states, mut events, mut panics, mut nontrivial) = (0u64, 0u64, 0u64, 0u64);
    let mut by: std::collections::BTreeMap<String, u64> = Default::default();
    let mut paths: Vec<Vec<Value>> = vec![];
    let mut ops: Vec<Value> = vec![];
    for line in input.lines() {
        let line = line.unwrap();
        if let Some(v) = tlc_payload(&line, "OPS") {
            ops = v["ops"].as_array().cloned().unwrap_or_default();
            ops.sort_by_key(|o| o.to_string());
            continue;
        }
        let Some(v) = tlc_payload(&line, "STATE") else { continue };
        if (paths.len() as u64) < max_states {
            paths.push(v["path"].as_array().cloned().unwrap_or_default());
        }
    }
    // larger lists: states reached by seeded random histories over the specification's alphabet (--random n,len,seed)
    if let Some(r) = a.get("random") {
        let p: Vec<u64> = r.split(',').map(|x| x.parse().expect("--random n,len,seed")).collect();
        let mut rng = crate::exec::Rng(p[2].wrapping_mul(0x9E37_79B9_7F4A_7C15) | 1);
        for _ in 0..p[0] {
            paths.push(crate::exec::random_hist(&ops, p[1] as usize, &mut rng));
        }
    }
    for path in paths {
        states += 1;
        let Some(probe) = catch_unwind(AssertUnwindSafe(|| replay::<S>(&cfg, &env, &path))).ok().flatten() else { continue };
        out.boundary();
        for list in S::LISTS {
            let n = probe.list_len(list);
            let wit = probe.witness(list);
            for (fam, kind, proj, mutable) in FAMILIES {
                for word in words(n, all_words && n <= 4) {
                    // every run starts from a freshly replayed state (mutable families write)
                    let Some(mut c) = replay::<S>(&cfg, &env, &path) else { continue };
                    crate::exec::beat();
                    let r = catch_unwind(AssertUnwindSafe(|| c.run(list, fam, &word)));
                    let rec = match r {
                        Ok(Some((lg, len, aft))) => json!({
                            "op": "iter", "path": path, "list": list, "fam": fam, "kind": kind, "proj": proj, "mutable": mutable,
                            "word": word_json(&word), "fin": lg.fin, "fin_items": lg.fin_items,
                            "yields": lg.yields, "hints": lg.hints, "count": lg.count, "clones": lg.clones, "len": len,
                            "hint_consistent": lg.hint_consistent, "after": aft, "witness": wit, "panic": false}),
                        Ok(None) => continue, // family does not exist for this type (into_iter on composite lists)
                        Err(_) => {
                            panics += 1;
                            json!({"op":"iter","path":path,"list":list,"fam":fam,"kind":kind,"proj":proj,"mutable":mutable,
                                   "word": word_json(&word), "fin": "count", "fin_items": [], "panic":true,
                                   "yields":[],"hints":[],"count":0,"clones":[],"len":0,"after":[],"witness":wit,"hint_consistent":false})
                        }
                    };
                    events += 1;
                    if n >= 2 {
                        nontrivial += 1;
                    }
                    *by.entry(format!("{fam}:len{}", n.min(9))).or_insert(0) += 1;
                    out.line(&rec);
                }
            }
        }
    }
    out.finish();
    json!({"states": states, "tests": events, "events": events, "panics": panics, "nontrivial": nontrivial, "by_kind": by})
}

pub fn run(a: &crate::Args) -> Value {
    match a.get("kind").expect("--kind") {
        "raw" => run_kind::<Raw<TK>>(a),
        "2q" => run_kind::<TwoQ<TK>>(a),
        "arc" => run_kind::<Arc<TK>>(a),
        o => panic!("iters: unknown kind {o}"),
    }
}
#[allow(dead_code)]
fn _unused(_: &RawLRU<u64, u64>, _: DynBH, _: &mut dyn Write) {}
