//! C05, constructors: run every call of the specification's grid (TLC "CTOR" lines) under
//! catch_unwind and log its outcome: "Ok", the error kind, or "Panic".
use crate::exec::tlc_payload;
use crate::hashers::{DynBH, LogCb};
use crate::sut::{s, u};
use caches::lru::CacheError;
use caches::*;
use serde_json::{json, Value};
use std::collections::*;
use std::io::{BufRead, Write};
use std::panic::{catch_unwind, AssertUnwindSafe};

fn f(name: &str) -> f64 {
    match name {
        "neg" => -1.0,
        "zero" => 0.0,
        "tiny" => 1e-9,
        "quarter" => 0.25,
        "half" => 0.5,
        "big" => 0.999,
        "one" => 1.0,
        "two" => 2.0,
        "nan" => f64::NAN,
        o => panic!("harness: unknown float name {o}"),
    }
}
fn ce<T>(r: Result<T, CacheError>) -> String {
    match r {
        Ok(_) => "Ok".into(),
        Err(CacheError::InvalidSize(_)) => "InvalidSize".into(),
        Err(CacheError::InvalidRecentRatio(_)) => "InvalidRecentRatio".into(),
        Err(CacheError::InvalidGhostRatio(_)) => "InvalidGhostRatio".into(),
    }
}
/// the error enums of the LFU side are not nameable from outside the crate: classify by message
fn msg<T, E: std::fmt::Debug>(r: Result<T, E>) -> String {
    match r {
        Ok(_) => "Ok".into(),
        Err(e) => {
            let m = format!("{e:?}");
            if m.contains("number of samples") {
                "InvalidSamples"
            } else if m.contains("sketch width") {
                "InvalidCountMinWidth"
            } else if m.contains("window cache size") {
                "InvalidWindowCacheSize"
            } else if m.contains("probationary cache size") {
                "InvalidProbationaryCacheSize"
            } else if m.contains("protected cache size") {
                "InvalidProtectedCacheSize"
            } else if m.contains("false positive ratio") {
                "InvalidFalsePositiveRatio"
            } else {
                "UnknownError"
            }
            .into()
        }
    }
}
fn items(n: u64) -> Vec<(u64, u64)> {
    (1..=n).map(|i| (i, i * 10)).collect()
}
thread_local! { static ORDER: std::cell::RefCell<(Vec<u64>, i64)> = const { std::cell::RefCell::new((Vec::new(), -1)) }; }
/// record the order the cache was built in, then use it a little so that a broken construction shows
fn poke(mut c: RawLRU<u64, u64>, n: u64) -> String {
    ORDER.with(|o| *o.borrow_mut() = (c.keys().copied().collect(), c.cap() as i64));
    let _ = c.len() + c.cap();
    for (k, v) in items(n) {
        let _ = c.peek(&k).map(|x| *x == v);
    }
    c.put(1000, 1);
    let _ = c.get(&1000);
    "Ok".into()
}

fn run_one(c: &Value) -> String {
    let n = u(c, "n") as usize;
    match s(c, "c") {
        "raw_new" => ce(RawLRU::<u64, u64>::new(n)),
        "raw_with_hasher" => ce(RawLRU::<u64, u64, DefaultEvictCallback, DynBH>::with_hasher(n, DynBH::of("fnv"))),
        "raw_with_cb" => ce(RawLRU::<u64, u64, LogCb>::with_on_evict_cb(n, LogCb)),
        "raw_with_cb_and_hasher" => ce(RawLRU::<u64, u64, LogCb, DynBH>::with_on_evict_cb_and_hasher(n, LogCb, DynBH::of("zero"))),
        "arc_new" => ce(AdaptiveCache::<u64, u64>::new(n)),
        "arc_builder" => ce(AdaptiveCacheBuilder::new(1).set_size(n).set_recent_hasher(DynBH::of("ident")).finalize::<u64, u64>()),
        "slru_new" => ce(SegmentedCache::<u64, u64>::new(u(c, "a") as usize, u(c, "b") as usize)),
        "slru_builder" => ce(SegmentedCacheBuilder::new(u(c, "a") as usize, u(c, "b") as usize).finalize::<u64, u64>()),
        "slru_builder_setters" => ce(SegmentedCache::<u64, u64, DynBH, DynBH>::from_builder(
            SegmentedCacheBuilder::new(7, 7)
                .set_protected_hasher(DynBH::of("fnv"))
                .set_probationary_hasher(DynBH::of("zero"))
                .set_protected_size(u(c, "b") as usize)
                .set_probationary_size(u(c, "a") as usize),
        )),
        "2q_new" => ce(TwoQueueCache::<u64, u64>::new(n)),
        "2q_params" => ce(TwoQueueCache::<u64, u64>::with_2q_parameters(n, f(s(c, "rr")), f(s(c, "gr")))),
        "2q_with_recent_ratio" => ce(TwoQueueCache::<u64, u64>::with_recent_ratio(n, f(s(c, "rr")))),
        "2q_with_ghost_ratio" => ce(TwoQueueCache::<u64, u64>::with_ghost_ratio(n, f(s(c, "gr")))),
        "2q_builder" => ce(TwoQueueCacheBuilder::new(n).set_recent_ratio(f(s(c, "rr"))).set_ghost_ratio(f(s(c, "gr"))).finalize::<u64, u64>()),
        "2q_builder_perm" => {
            // the three setters applied in the order given by `perm`, each preceded by a decoy value that must not stick
            let (rr, gr) = (f(s(c, "rr")), f(s(c, "gr")));
            let order: [usize; 3] = [[0, 1, 2], [0, 2, 1], [1, 0, 2], [1, 2, 0], [2, 0, 1], [2, 1, 0]][u(c, "perm") as usize];
            let mut b = TwoQueueCacheBuilder::new(5).set_recent_ratio(0.75).set_ghost_ratio(0.75);
            for step in order {
                b = match step {
                    0 => b.set_size(77).set_size(n),
                    1 => b.set_recent_ratio(0.5).set_recent_ratio(rr),
                    _ => b.set_ghost_ratio(0.25).set_ghost_ratio(gr),
                };
            }
            ce(b.finalize::<u64, u64>())
        }
        "w_builder_perm" => {
            let order: [usize; 3] = [[0, 1, 2], [0, 2, 1], [1, 0, 2], [1, 2, 0], [2, 0, 1], [2, 1, 0]][u(c, "perm") as usize];
            let mut b = WTinyLFUCache::<u64, u64>::builder().set_probationary_cache_size(u(c, "a") as usize);
            for step in order {
                b = match step {
                    0 => b.set_window_cache_size(9).set_window_cache_size(u(c, "w") as usize),
                    1 => b.set_samples(9).set_samples(u(c, "s") as usize).set_protected_cache_size(u(c, "b") as usize),
                    _ => b.set_false_positive_ratio(0.5).set_false_positive_ratio(f(s(c, "fp"))),
                };
            }
            msg(b.finalize::<u64>())
        }
        "w_with_sizes" => msg(WTinyLFUCache::<u64, u64>::with_sizes(u(c, "w") as usize, u(c, "b") as usize, u(c, "a") as usize, u(c, "s") as usize)),
        "w_builder" => msg(
            WTinyLFUCache::<u64, u64>::builder()
                .set_window_cache_size(u(c, "w") as usize)
                .set_protected_cache_size(u(c, "b") as usize)
                .set_probationary_cache_size(u(c, "a") as usize)
                .set_samples(u(c, "s") as usize)
                .set_false_positive_ratio(f(s(c, "fp")))
                .finalize::<u64>(),
        ),
        "w_new" => msg(WTinyLFUCache::<u64, u64>::new(n, u(c, "s") as usize)),
        "tinylfu_new" => {
            let r = lfu::TinyLFU::<u64>::new(n, u(c, "s") as usize, f(s(c, "fp")));
            match r {
                Ok(mut t) => {
                    // a successfully constructed estimator must be usable
                    t.increment(&1);
                    t.increment(&1);
                    let _ = t.estimate(&1) + t.estimate(&2);
                    "Ok".into()
                }
                e => msg(e),
            }
        }
        "raw_from_vec" => poke(RawLRU::from(items(n as u64)), n as u64),
        "raw_from_iter_nohint" => poke(items(n as u64).into_iter().filter(|_| true).collect(), n as u64),
        "raw_collect" => poke(items(n as u64).into_iter().collect(), n as u64),
        "raw_from_slice" => poke(RawLRU::from(&items(n as u64)[..]), n as u64),
        "raw_from_mut_slice" => poke(RawLRU::from(&mut items(n as u64)[..]), n as u64),
        "raw_from_array" => match n {
            0 => poke(RawLRU::from([(0u64, 0u64); 0]), 0),
            1 => poke(RawLRU::from([(1u64, 10u64)]), 1),
            _ => poke(RawLRU::from([(1u64, 10u64), (2, 20), (3, 30)]), 3),
        },
        "raw_from_vecdeque" => poke(RawLRU::from(items(n as u64).into_iter().collect::<VecDeque<_>>()), n as u64),
        "raw_from_linkedlist" => poke(RawLRU::from(items(n as u64).into_iter().collect::<LinkedList<_>>()), n as u64),
        "raw_from_btreeset" => poke(RawLRU::from(items(n as u64).into_iter().collect::<BTreeSet<_>>()), n as u64),
        "raw_from_binaryheap" => poke(RawLRU::from(items(n as u64).into_iter().collect::<BinaryHeap<_>>()), n as u64),
        "raw_from_btreemap" => poke(RawLRU::from(items(n as u64).into_iter().collect::<BTreeMap<_, _>>()), n as u64),
        #[cfg(not(feature = "nostd"))]
        "raw_from_hashset" => poke(RawLRU::from(items(n as u64).into_iter().collect::<HashSet<_>>()), n as u64),
        #[cfg(not(feature = "nostd"))]
        "raw_from_hashmap" => poke(RawLRU::from(items(n as u64).into_iter().collect::<HashMap<_, _>>()), n as u64),
        #[cfg(feature = "nostd")]
        "raw_from_hashset" | "raw_from_hashmap" => "Ok".into(), // hashbrown's map types are not a dependency of the harness
        "sampled_new" => {
            let mut l = lfu::SampledLFU::<u64>::new(n as i64);
            l.increment(&1, 1);
            let _ = l.room_left(0);
            "Ok".into()
        }
        "sampled_with_samples" => {
            let mut l = lfu::SampledLFU::<u64>::with_samples(n as i64, u(c, "s") as usize);
            l.increment(&1, 1);
            let _ = l.fill_sample(vec![]);
            "Ok".into()
        }
        o => panic!("harness: unknown constructor {o}"),
    }
}

pub fn run(a: &crate::Args) -> Value {
    let input: Box<dyn std::io::Read> = match a.get("in") {
        Some(p) => Box::new(std::fs::File::open(p).expect("open --in")),
        None => Box::new(std::io::stdin()),
    };
    let input = std::io::BufReader::new(input);
    let mut out = std::io::BufWriter::new(std::fs::File::create(a.get("out").expect("--out")).expect("create --out"));
    let (mut n, mut panics) = (0u64, 0u64);
    let mut by: BTreeMap<String, u64> = BTreeMap::new();
    for line in input.lines() {
        let line = line.unwrap();
        let Some(c) = tlc_payload(&line, "CTOR") else { continue };
        ORDER.with(|o| *o.borrow_mut() = (vec![], -1));
        let outcome = match catch_unwind(AssertUnwindSafe(|| run_one(&c))) {
            Ok(o) => o,
            Err(e) => {
                let m = e.downcast_ref::<String>().cloned().or_else(|| e.downcast_ref::<&str>().map(|x| x.to_string())).unwrap_or_default();
                if m.starts_with("harness:") {
                    eprintln!("{m}");
                    std::process::exit(3);
                }
                panics += 1;
                "Panic".into()
            }
        };
        *by.entry(outcome.clone()).or_insert(0) += 1;
        n += 1;
        let (order, cap) = ORDER.with(|o| o.borrow().clone());
        writeln!(out, "{}", json!({"call": c, "outcome": outcome, "order": order, "cap": cap})).unwrap();
    }
    out.flush().unwrap();
    json!({"events": n, "tests": n, "panics": panics, "nontrivial": n, "by_kind": by})
}
