//! C05, constructors: run every call of the specification's grid (TLC "CTOR" lines) under
//! catch_unwind and log its outcome: "Ok", the error kind, or "Panic".
use crate::exec::tlc_payload;
use crate::hashers::{DynBH, LogCb, TabKH};
use std::hash::BuildHasher;
use std::rc::Rc;
use crate::sut::{s, u};
use caches::lru::CacheError;
use caches::*;
use serde_json::{json, Value};
use std::collections::*;
use std::io::{BufRead, Write};
use std::panic::{catch_unwind, AssertUnwindSafe};

fn f(name: &str) -> f64 {
    match name {
        "neg" => -1.0,
        "zero" => 0.0,
        "tiny" => 1e-9,
        "quarter" => 0.25,
        "half" => 0.5,
        "big" => 0.999,
        "one" => 1.0,
        "two" => 2.0,
        "nan" => f64::NAN,
        o => panic!("harness: unknown float name {o}"),
    }
}
fn ce<T>(r: Result<T, CacheError>) -> String {
    match r {
        Ok(_) => "Ok".into(),
        Err(CacheError::InvalidSize(_)) => "InvalidSize".into(),
        Err(CacheError::InvalidRecentRatio(_)) => "InvalidRecentRatio".into(),
        Err(CacheError::InvalidGhostRatio(_)) => "InvalidGhostRatio".into(),
    }
}
/// the error enums of the LFU side are not nameable from outside the crate: classify by message
fn msg<T, E: std::fmt::Debug>(r: Result<T, E>) -> String {
    match r {
        Ok(_) => "Ok".into(),
        Err(e) => {
            let m = format!("{e:?}");
            if m.contains("number of samples") {
                "InvalidSamples"
            } else if m.contains("sketch width") {
                "InvalidCountMinWidth"
            } else if m.contains("window cache size") {
                "InvalidWindowCacheSize"
            } else if m.contains("probationary cache size") {
                "InvalidProbationaryCacheSize"
            } else if m.contains("protected cache size") {
                "InvalidProtectedCacheSize"
            } else if m.contains("false positive ratio") {
                "InvalidFalsePositiveRatio"
            } else {
                "UnknownError"
            }
            .into()
        }
    }
}
fn items(n: u64) -> Vec<(u64, u64)> {
    (1..=n).map(|i| (i, i * 10)).collect()
}
thread_local! { static SHAPE: std::cell::RefCell<Vec<i64>> = const { std::cell::RefCell::new(Vec::new()) }; }
/// what a successful construction carries (Ctor.tla, Shape): configured capacities, quotas, sample sizes
fn shape(v: Vec<usize>) {
    SHAPE.with(|s| *s.borrow_mut() = v.into_iter().map(|x| x.min(i32::MAX as usize) as i64).collect());
}
fn ce_raw<E: OnEvictCallback, S: BuildHasher>(r: Result<RawLRU<u64, u64, E, S>, CacheError>) -> String {
    if let Ok(c) = &r {
        shape(vec![c.cap()]);
    }
    ce(r)
}
fn ce_slru<FH: BuildHasher, RH: BuildHasher>(r: Result<SegmentedCache<u64, u64, FH, RH>, CacheError>) -> String {
    if let Ok(c) = &r {
        let (pb, pt) = c.verif_parts();
        shape(vec![pb.cap(), pt.cap(), c.cap()]);
    }
    ce(r)
}
fn ce_2q<RH: BuildHasher, FH: BuildHasher, GH: BuildHasher>(r: Result<TwoQueueCache<u64, u64, RH, FH, GH>, CacheError>) -> String {
    if let Ok(c) = &r {
        let (rc, fq, gh) = c.verif_parts();
        shape(vec![c.cap(), c.verif_recent_quota(), gh.cap(), rc.cap(), fq.cap()]);
    }
    ce(r)
}
fn ce_arc<RH: BuildHasher, REH: BuildHasher, FH: BuildHasher, FEH: BuildHasher>(
    r: Result<AdaptiveCache<u64, u64, RH, REH, FH, FEH>, CacheError>,
) -> String {
    if let Ok(c) = &r {
        let (rc, fq, re, fe) = c.verif_parts();
        shape(vec![c.cap(), rc.cap(), fq.cap(), re.cap(), fe.cap()]);
    }
    ce(r)
}
fn msg_w<KH: lfu::KeyHasher<u64>, FH: BuildHasher, RH: BuildHasher, WH: BuildHasher, E: std::fmt::Debug>(
    mut r: Result<WTinyLFUCache<u64, u64, KH, FH, RH, WH>, E>,
    constrained: bool,
) -> String {
    if let Ok(c) = &mut r {
        // a successfully constructed cache must be usable: a few dozen keys, each looked up twice
        for k in 0..48u64 {
            c.put(k.wrapping_mul(0x9E37_79B9_7F4A_7C15), k);
        }
        for k in 0..48u64 {
            let _ = c.get(&k.wrapping_mul(0x9E37_79B9_7F4A_7C15));
            let _ = c.get(&k.wrapping_mul(0x9E37_79B9_7F4A_7C15));
        }
    }
    if let (Ok(c), true) = (&r, constrained) {
        let (w, m, t) = c.verif_parts();
        let (pb, pt) = m.verif_parts();
        shape(vec![w.cap(), pb.cap(), pt.cap(), t.verif_w().1, c.cap()]);
    }
    msg(r)
}
fn sampled_shape<KH: lfu::KeyHasher<u64>, S: BuildHasher>(mut l: lfu::SampledLFU<u64, KH, S>) -> String {
    let room = l.room_left(0);
    for k in 1..=8u64 {
        l.increment(&k, 1);
    }
    let n = l.fill_sample(vec![]).len();
    shape(vec![room.max(0) as usize, n]);
    l.increment(&1, 1);
    let _ = l.room_left(0);
    "Ok".into()
}
const PERMS: [[usize; 3]; 6] = [[0, 1, 2], [0, 2, 1], [1, 0, 2], [1, 2, 0], [2, 0, 1], [2, 1, 0]];
fn tab() -> TabKH {
    TabKH { table: Rc::new(vec![]) }
}
thread_local! { static ORDER: std::cell::RefCell<(Vec<u64>, i64)> = const { std::cell::RefCell::new((Vec::new(), -1)) }; }
/// record the order the cache was built in, then use it a little so that a broken construction shows
fn poke(mut c: RawLRU<u64, u64>, n: u64) -> String {
    ORDER.with(|o| *o.borrow_mut() = (c.keys().copied().collect(), c.cap() as i64));
    let _ = c.len() + c.cap();
    for (k, v) in items(n) {
        let _ = c.peek(&k).map(|x| *x == v);
    }
    c.put(1000, 1);
    let _ = c.get(&1000);
    "Ok".into()
}

fn run_one(c: &Value) -> String {
    let n = u(c, "n") as usize;
    match s(c, "c") {
        "raw_new" => ce_raw(RawLRU::<u64, u64>::new(n)),
        "raw_with_hasher" => ce_raw(RawLRU::<u64, u64, DefaultEvictCallback, DynBH>::with_hasher(n, DynBH::of("fnv"))),
        "raw_with_cb" => ce_raw(RawLRU::<u64, u64, LogCb>::with_on_evict_cb(n, LogCb)),
        "raw_with_cb_and_hasher" => ce_raw(RawLRU::<u64, u64, LogCb, DynBH>::with_on_evict_cb_and_hasher(n, LogCb, DynBH::of("zero"))),
        "arc_new" => ce_arc(AdaptiveCache::<u64, u64>::new(n)),
        "arc_builder" => ce_arc(AdaptiveCacheBuilder::new(1).set_size(n).set_recent_hasher(DynBH::of("ident")).finalize::<u64, u64>()),
        "slru_new" => ce_slru(SegmentedCache::<u64, u64>::new(u(c, "a") as usize, u(c, "b") as usize)),
        "slru_builder" => ce_slru(SegmentedCacheBuilder::new(u(c, "a") as usize, u(c, "b") as usize).finalize::<u64, u64>()),
        "slru_builder_setters" => ce_slru(SegmentedCache::<u64, u64, DynBH, DynBH>::from_builder(
            SegmentedCacheBuilder::new(7, 7)
                .set_protected_hasher(DynBH::of("fnv"))
                .set_probationary_hasher(DynBH::of("zero"))
                .set_protected_size(u(c, "b") as usize)
                .set_probationary_size(u(c, "a") as usize),
        )),
        "2q_new" => ce_2q(TwoQueueCache::<u64, u64>::new(n)),
        "2q_params" => ce_2q(TwoQueueCache::<u64, u64>::with_2q_parameters(n, f(s(c, "rr")), f(s(c, "gr")))),
        "2q_with_recent_ratio" => ce_2q(TwoQueueCache::<u64, u64>::with_recent_ratio(n, f(s(c, "rr")))),
        "2q_with_ghost_ratio" => ce_2q(TwoQueueCache::<u64, u64>::with_ghost_ratio(n, f(s(c, "gr")))),
        "2q_builder" => ce_2q(TwoQueueCacheBuilder::new(n).set_recent_ratio(f(s(c, "rr"))).set_ghost_ratio(f(s(c, "gr"))).finalize::<u64, u64>()),
        "2q_builder_perm" => {
            // the three setters applied in the order given by `perm`, each preceded by a decoy value that must not stick
            let (rr, gr) = (f(s(c, "rr")), f(s(c, "gr")));
            let order: [usize; 3] = [[0, 1, 2], [0, 2, 1], [1, 0, 2], [1, 2, 0], [2, 0, 1], [2, 1, 0]][u(c, "perm") as usize];
            let mut b = TwoQueueCacheBuilder::new(5).set_recent_ratio(0.75).set_ghost_ratio(0.75);
            for step in order {
                b = match step {
                    0 => b.set_size(77).set_size(n),
                    1 => b.set_recent_ratio(0.5).set_recent_ratio(rr),
                    _ => b.set_ghost_ratio(0.25).set_ghost_ratio(gr),
                };
            }
            ce_2q(b.finalize::<u64, u64>())
        }
        "w_builder_perm" => {
            let order: [usize; 3] = [[0, 1, 2], [0, 2, 1], [1, 0, 2], [1, 2, 0], [2, 0, 1], [2, 1, 0]][u(c, "perm") as usize];
            let mut b = WTinyLFUCache::<u64, u64>::builder().set_probationary_cache_size(u(c, "a") as usize);
            for step in order {
                b = match step {
                    0 => b.set_window_cache_size(9).set_window_cache_size(u(c, "w") as usize),
                    1 => b.set_samples(9).set_samples(u(c, "s") as usize).set_protected_cache_size(u(c, "b") as usize),
                    _ => b.set_false_positive_ratio(0.5).set_false_positive_ratio(f(s(c, "fp"))),
                };
            }
            msg_w(b.finalize::<u64>(), true)
        }
        "w_with_sizes" => msg_w(WTinyLFUCache::<u64, u64>::with_sizes(u(c, "w") as usize, u(c, "b") as usize, u(c, "a") as usize, u(c, "s") as usize), true),
        "w_builder" => msg_w(
            WTinyLFUCache::<u64, u64>::builder()
                .set_window_cache_size(u(c, "w") as usize)
                .set_protected_cache_size(u(c, "b") as usize)
                .set_probationary_cache_size(u(c, "a") as usize)
                .set_samples(u(c, "s") as usize)
                .set_false_positive_ratio(f(s(c, "fp")))
                .finalize::<u64>(),
            true,
        ),
        "w_new" => msg_w(WTinyLFUCache::<u64, u64>::new(n, u(c, "s") as usize), false),
        "tinylfu_new" => {
            let r = lfu::TinyLFU::<u64>::new(n, u(c, "s") as usize, f(s(c, "fp")));
            match r {
                Ok(mut t) => {
                    // a successfully constructed estimator must be usable
                    t.increment(&1);
                    t.increment(&1);
                    let _ = t.estimate(&1) + t.estimate(&2);
                    // raw hashes spread over the whole 64-bit range (every row position class of a wide sketch)
                    for i in 0..64u64 {
                        let h = i.wrapping_mul(0x9E37_79B9_7F4A_7C15) ^ (i << 17) ^ (u64::MAX >> (i % 64));
                        t.increment_hashed_key(h);
                        t.increment_hashed_key(h);
                        let _ = t.estimate_hashed_key(h);
                    }
                    shape(vec![t.verif_w().1]);
                    "Ok".into()
                }
                e => msg(e),
            }
        }
        "raw_from_vec" => poke(RawLRU::from(items(n as u64)), n as u64),
        "raw_from_iter_nohint" => poke(items(n as u64).into_iter().filter(|_| true).collect(), n as u64),
        "raw_collect" => poke(items(n as u64).into_iter().collect(), n as u64),
        "raw_from_slice" => poke(RawLRU::from(&items(n as u64)[..]), n as u64),
        "raw_from_mut_slice" => poke(RawLRU::from(&mut items(n as u64)[..]), n as u64),
        "raw_from_array" => match n {
            0 => poke(RawLRU::from([(0u64, 0u64); 0]), 0),
            1 => poke(RawLRU::from([(1u64, 10u64)]), 1),
            _ => poke(RawLRU::from([(1u64, 10u64), (2, 20), (3, 30)]), 3),
        },
        "raw_from_vecdeque" => poke(RawLRU::from(items(n as u64).into_iter().collect::<VecDeque<_>>()), n as u64),
        "raw_from_linkedlist" => poke(RawLRU::from(items(n as u64).into_iter().collect::<LinkedList<_>>()), n as u64),
        "raw_from_btreeset" => poke(RawLRU::from(items(n as u64).into_iter().collect::<BTreeSet<_>>()), n as u64),
        "raw_from_binaryheap" => poke(RawLRU::from(items(n as u64).into_iter().collect::<BinaryHeap<_>>()), n as u64),
        "raw_from_btreemap" => poke(RawLRU::from(items(n as u64).into_iter().collect::<BTreeMap<_, _>>()), n as u64),
        #[cfg(not(feature = "nostd"))]
        "raw_from_hashset" => poke(RawLRU::from(items(n as u64).into_iter().collect::<HashSet<_>>()), n as u64),
        #[cfg(not(feature = "nostd"))]
        "raw_from_hashmap" => poke(RawLRU::from(items(n as u64).into_iter().collect::<HashMap<_, _>>()), n as u64),
        #[cfg(feature = "nostd")]
        "raw_from_hashset" | "raw_from_hashmap" => "Ok".into(), // hashbrown's map types are not a dependency of the harness
        "sampled_new" => sampled_shape(lfu::SampledLFU::<u64>::new(n as i64)),
        "sampled_with_samples" => sampled_shape(lfu::SampledLFU::<u64>::with_samples(n as i64, u(c, "s") as usize)),
        "sampled_with_hasher" => sampled_shape(lfu::SampledLFU::<u64, lfu::DefaultKeyHasher<u64>, DynBH>::with_hasher(n as i64, DynBH::of("fnv"))),
        "sampled_with_samples_and_hasher" => sampled_shape(lfu::SampledLFU::<u64, lfu::DefaultKeyHasher<u64>, DynBH>::with_samples_and_hasher(
            n as i64,
            u(c, "s") as usize,
            DynBH::of("zero"),
        )),
        "sampled_with_key_hasher" => sampled_shape(lfu::SampledLFU::<u64, TabKH>::with_key_hasher(n as i64, tab())),
        "sampled_with_samples_and_key_hasher" => sampled_shape(lfu::SampledLFU::<u64, TabKH>::with_samples_and_key_hasher(n as i64, u(c, "s") as usize, tab())),
        "sampled_with_samples_and_key_hasher_and_hasher" => sampled_shape(lfu::SampledLFU::<u64, TabKH, DynBH>::with_samples_and_key_hasher_and_hasher(
            n as i64,
            u(c, "s") as usize,
            tab(),
            DynBH::of("ident"),
        )),
        // ---- builders whose hasher setters (which rebuild the builder at a new type) are interleaved with the value setters
        "arc_builder_perm" => {
            let mut b = AdaptiveCacheBuilder::default()
                .set_recent_hasher(DynBH::of("std"))
                .set_frequent_hasher(DynBH::of("std"))
                .set_recent_evict_hasher(DynBH::of("std"))
                .set_frequent_evict_hasher(DynBH::of("std"));
            for step in PERMS[u(c, "perm") as usize] {
                b = match step {
                    0 => b.set_size(77).set_size(n),
                    1 => b.set_recent_hasher(DynBH::of("fnv")).set_frequent_evict_hasher(DynBH::of("zero")),
                    _ => b.set_frequent_hasher(DynBH::of("ident")).set_recent_evict_hasher(DynBH::of("fnv")),
                };
            }
            ce_arc(b.finalize::<u64, u64>())
        }
        "arc_from_builder" => ce_arc(AdaptiveCache::<u64, u64>::from_builder(AdaptiveCacheBuilder::new(n))),
        "arc_builder_default" => ce_arc(AdaptiveCacheBuilder::default().finalize::<u64, u64>()),
        "slru_builder_perm" => {
            let mut b = SegmentedCacheBuilder::default().set_protected_hasher(DynBH::of("std")).set_probationary_hasher(DynBH::of("std"));
            for step in PERMS[u(c, "perm") as usize] {
                b = match step {
                    0 => b.set_probationary_size(55).set_probationary_size(u(c, "a") as usize),
                    1 => b.set_protected_size(66).set_protected_size(u(c, "b") as usize),
                    _ => b.set_protected_hasher(DynBH::of("fnv")).set_probationary_hasher(DynBH::of("zero")),
                };
            }
            ce_slru(b.finalize::<u64, u64>())
        }
        "slru_builder_default" => ce_slru(SegmentedCacheBuilder::default().finalize::<u64, u64>()),
        "2q_builder_hashers" => {
            let (rr, gr) = (f(s(c, "rr")), f(s(c, "gr")));
            let mut b = TwoQueueCacheBuilder::default()
                .set_recent_hasher(DynBH::of("std"))
                .set_frequent_hasher(DynBH::of("std"))
                .set_ghost_hasher(DynBH::of("std"));
            for step in PERMS[u(c, "perm") as usize] {
                b = match step {
                    0 => b.set_size(n).set_recent_ratio(rr),
                    1 => b.set_recent_hasher(DynBH::of("fnv")).set_frequent_hasher(DynBH::of("zero")).set_ghost_hasher(DynBH::of("ident")),
                    _ => b.set_ghost_ratio(gr),
                };
            }
            ce_2q(b.finalize::<u64, u64>())
        }
        "2q_from_builder" => ce_2q(TwoQueueCache::<u64, u64>::from_builder(
            TwoQueueCacheBuilder::new(n).set_recent_ratio(f(s(c, "rr"))).set_ghost_ratio(f(s(c, "gr"))),
        )),
        "2q_builder_default" => ce_2q(TwoQueueCacheBuilder::default().finalize::<u64, u64>()),
        "w_builder_hashers" => {
            let mut b = WTinyLFUCacheBuilder::<u64, TabKH, DynBH, DynBH, DynBH>::with_hashers(tab(), DynBH::of("std"), DynBH::of("std"), DynBH::of("std"));
            for step in PERMS[u(c, "perm") as usize] {
                b = match step {
                    0 => b.set_window_cache_size(u(c, "w") as usize).set_protected_cache_size(u(c, "b") as usize).set_probationary_cache_size(u(c, "a") as usize),
                    1 => b
                        .set_window_hasher(DynBH::of("fnv"))
                        .set_protected_hasher(DynBH::of("zero"))
                        .set_key_hasher(tab())
                        .set_probationary_hasher(DynBH::of("ident")),
                    _ => b.set_samples(u(c, "s") as usize).set_false_positive_ratio(f(s(c, "fp"))),
                };
            }
            msg_w(b.finalize::<u64>(), true)
        }
        "w_from_builder" => msg_w(
            WTinyLFUCache::<u64, u64>::from_builder(
                WTinyLFUCacheBuilder::new(u(c, "w") as usize, u(c, "b") as usize, u(c, "a") as usize, u(c, "s") as usize)
                    .set_false_positive_ratio(f(s(c, "fp"))),
            ),
            true,
        ),
        o => panic!("harness: unknown constructor {o}"),
    }
}

pub fn run(a: &crate::Args) -> Value {
    let input: Box<dyn std::io::Read> = match a.get("in") {
        Some(p) => Box::new(std::fs::File::open(p).expect("open --in")),
        None => Box::new(std::io::stdin()),
    };
    let input = std::io::BufReader::new(input);
    let mut out = std::io::BufWriter::new(std::fs::File::create(a.get("out").expect("--out")).expect("create --out"));
    let (mut n, mut panics) = (0u64, 0u64);
    let mut by: BTreeMap<String, u64> = BTreeMap::new();
    for line in input.lines() {
        let line = line.unwrap();
        let Some(c) = tlc_payload(&line, "CTOR") else { continue };
        ORDER.with(|o| *o.borrow_mut() = (vec![], -1));
        SHAPE.with(|s| s.borrow_mut().clear());
        let outcome = match catch_unwind(AssertUnwindSafe(|| run_one(&c))) {
            Ok(o) => o,
            Err(e) => {
                let m = e.downcast_ref::<String>().cloned().or_else(|| e.downcast_ref::<&str>().map(|x| x.to_string())).unwrap_or_default();
                if m.starts_with("harness:") {
                    eprintln!("{m}");
                    std::process::exit(3);
                }
                panics += 1;
                "Panic".into()
            }
        };
        *by.entry(outcome.clone()).or_insert(0) += 1;
        n += 1;
        let (order, cap) = ORDER.with(|o| o.borrow().clone());
        let shape = SHAPE.with(|s| s.borrow().clone());
        writeln!(out, "{}", json!({"call": c, "outcome": outcome, "order": order, "cap": cap, "shape": shape})).unwrap();
    }
    out.flush().unwrap();
    json!({"events": n, "tests": n, "panics": panics, "nontrivial": n, "by_kind": by})
}
