//! Global allocator wrapper:
//!  * counts the live blocks that were allocated while `TRACK` was on (i.e. inside calls into
//!    the library) in an address table, so that "dropping the cache releases every allocation
//!    it made" is observable;
//!  * optionally poisons and quarantines freed blocks of the list-node size, so that a read
//!    through a stale node pointer yields poison (detected by the magic field of tracked
//!    keys/values) or a fault on the poisoned prev/next pointers, instead of silently
//!    reading recycled memory.
use std::alloc::{GlobalAlloc, Layout, System};
use std::cell::UnsafeCell;
use std::sync::atomic::{AtomicBool, AtomicUsize, Ordering};

const TABLE_BITS: usize = 20;
const TABLE_SIZE: usize = 1 << TABLE_BITS;
const RING_SIZE: usize = 1 << 18;

pub struct QAlloc {
    table: UnsafeCell<[usize; TABLE_SIZE]>,
    /// addresses currently in quarantine (freed by the program, not yet returned to the system)
    qtable: UnsafeCell<[usize; TABLE_SIZE]>,
    ring: UnsafeCell<[(usize, usize, usize); RING_SIZE]>,
}
// the harness is single threaded
unsafe impl Sync for QAlloc {}

pub static TRACK: AtomicBool = AtomicBool::new(false);
pub static LIVE: AtomicUsize = AtomicUsize::new(0);
pub static LIVE_BYTES: AtomicUsize = AtomicUsize::new(0);
pub static QUARANTINE_SIZE: AtomicUsize = AtomicUsize::new(0);
static RING_POS: AtomicUsize = AtomicUsize::new(0);
pub static QUARANTINED: AtomicUsize = AtomicUsize::new(0);
pub static DOUBLE_FREE: AtomicUsize = AtomicUsize::new(0);

impl QAlloc {
    pub const fn new() -> Self {
        QAlloc { table: UnsafeCell::new([0; TABLE_SIZE]), qtable: UnsafeCell::new([0; TABLE_SIZE]), ring: UnsafeCell::new([(0, 0, 0); RING_SIZE]) }
    }
    #[inline]
    fn slot(addr: usize) -> usize {
        (addr >> 4).wrapping_mul(0x9E37_79B9_7F4A_7C15) >> (64 - TABLE_BITS)
    }
    unsafe fn insert(&self, addr: usize) {
        Self::t_insert(&mut *self.table.get(), addr)
    }
    unsafe fn remove(&self, addr: usize) -> bool {
        Self::t_remove(&mut *self.table.get(), addr)
    }
    pub fn is_quarantined(&self, addr: usize) -> bool {
        unsafe { Self::t_has(&*self.qtable.get(), addr) }
    }
    fn t_has(t: &[usize; TABLE_SIZE], addr: usize) -> bool {
        let mut i = Self::slot(addr);
        loop {
            if t[i] == addr {
                return true;
            }
            if t[i] == 0 {
                return false;
            }
            i = (i + 1) & (TABLE_SIZE - 1);
        }
    }
    fn t_insert(t: &mut [usize; TABLE_SIZE], addr: usize) {
        let mut i = Self::slot(addr);
        loop {
            if t[i] == 0 {
                t[i] = addr;
                return;
            }
            i = (i + 1) & (TABLE_SIZE - 1);
        }
    }
    /// linear probing with backward-shift deletion (no tombstones, so lookups stay short forever)
    fn t_remove(t: &mut [usize; TABLE_SIZE], addr: usize) -> bool {
        let mask = TABLE_SIZE - 1;
        let mut i = Self::slot(addr);
        loop {
            if t[i] == addr {
                break;
            }
            if t[i] == 0 {
                return false;
            }
            i = (i + 1) & mask;
        }
        let mut j = i;
        loop {
            j = (j + 1) & mask;
            if t[j] == 0 {
                break;
            }
            let k = Self::slot(t[j]);
            // can t[j] move into the hole at i?  only if its home slot k is not in (i, j]
            let in_range = if i <= j { i < k && k <= j } else { i < k || k <= j };
            if !in_range {
                t[i] = t[j];
                i = j;
            }
        }
        t[i] = 0;
        true
    }
}

unsafe impl GlobalAlloc for QAlloc {
    unsafe fn alloc(&self, layout: Layout) -> *mut u8 {
        let p = System.alloc(layout);
        if !p.is_null() && TRACK.load(Ordering::Relaxed) {
            self.insert(p as usize);
            LIVE.fetch_add(1, Ordering::Relaxed);
            LIVE_BYTES.fetch_add(layout.size(), Ordering::Relaxed);
        }
        p
    }
    unsafe fn dealloc(&self, p: *mut u8, layout: Layout) {
        if LIVE.load(Ordering::Relaxed) > 0 && self.remove(p as usize) {
            LIVE.fetch_sub(1, Ordering::Relaxed);
            LIVE_BYTES.fetch_sub(layout.size(), Ordering::Relaxed);
        }
        let q = QUARANTINE_SIZE.load(Ordering::Relaxed);
        if q != 0 && layout.size() == q {
            if Self::t_has(&*self.qtable.get(), p as usize) {
                // freed twice by the program: do not hand it to the system allocator a second time
                DOUBLE_FREE.fetch_add(1, Ordering::Relaxed);
                return;
            }
            std::ptr::write_bytes(p, 0xDE, layout.size());
            Self::t_insert(&mut *self.qtable.get(), p as usize);
            let ring = &mut *self.ring.get();
            let pos = RING_POS.fetch_add(1, Ordering::Relaxed) % RING_SIZE;
            let old = ring[pos];
            ring[pos] = (p as usize, layout.size(), layout.align());
            QUARANTINED.fetch_add(1, Ordering::Relaxed);
            if old.0 != 0 {
                Self::t_remove(&mut *self.qtable.get(), old.0);
                System.dealloc(old.0 as *mut u8, Layout::from_size_align_unchecked(old.1, old.2));
            }
            return;
        }
        System.dealloc(p, layout)
    }
}

/// run `f` with allocation tracking on (calls into the library)
#[inline]
pub fn tracked<R>(f: impl FnOnce() -> R) -> R {
    let prev = TRACK.swap(true, Ordering::Relaxed);
    struct Restore(bool);
    impl Drop for Restore {
        fn drop(&mut self) {
            TRACK.store(self.0, Ordering::Relaxed);
        }
    }
    let _r = Restore(prev);
    f()
}
/// run `f` with allocation tracking off (harness bookkeeping inside library calls)
#[inline]
pub fn untracked<R>(f: impl FnOnce() -> R) -> R {
    let prev = TRACK.swap(false, Ordering::Relaxed);
    let r = f();
    TRACK.store(prev, Ordering::Relaxed);
    r
}
pub fn take_double_frees() -> usize {
    DOUBLE_FREE.swap(0, Ordering::Relaxed)
}
pub fn live() -> usize {
    LIVE.load(Ordering::Relaxed)
}
