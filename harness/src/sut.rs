//! Systems under test: the five cache types behind one trait.  The harness executes and
//! observes; it does not judge.
use crate::hashers::{DynBH, LogCb, TabKH};
use crate::track::{KeyT, TV};
use caches::lru::VerifAudit;
use caches::{
    AdaptiveCache, AdaptiveCacheBuilder, Cache, PutResult, RawLRU, ResizableCache, SegmentedCache,
    SegmentedCacheBuilder, TwoQueueCache, TwoQueueCacheBuilder, WTinyLFUCache, WTinyLFUCacheBuilder,
};
use serde_json::{json, Map, Value};
use std::rc::Rc;

/// (key id, value, key token, value token)
pub type Ent = (u64, u64, u64, u64);

/// things returned by the cache that must stay alive until the event has been logged
pub enum Kept<K> {
    Pr(PutResult<K, TV>),
    V(TV),
    Kv(K, TV),
}
pub struct Hold<K> {
    pub in_toks: Vec<u64>,
    pub out_toks: Vec<u64>,
    pub kept: Vec<Kept<K>>,
}
impl<K> Hold<K> {
    pub fn new() -> Self {
        Hold { in_toks: vec![], out_toks: vec![], kept: vec![] }
    }
}

pub fn u(op: &Value, f: &str) -> u64 {
    op.get(f).and_then(|v| v.as_u64()).unwrap_or(0)
}
pub fn s<'a>(op: &'a Value, f: &str) -> &'a str {
    op.get(f).and_then(|v| v.as_str()).unwrap_or("")
}

fn new_key<K: KeyT>(id: u64, h: &mut Hold<K>) -> K {
    let k = K::mk(id);
    if k.tok() != 0 {
        h.in_toks.push(k.tok());
    }
    k
}
fn new_val<K>(v: u64, h: &mut Hold<K>) -> TV {
    let v = TV::new(v);
    h.in_toks.push(v.tok);
    v
}
fn out_key<K: KeyT>(k: &K, h: &mut Hold<K>) {
    if k.tok() != 0 {
        h.out_toks.push(k.tok());
    }
}

pub fn pr_json<K: KeyT>(r: PutResult<K, TV>, h: &mut Hold<K>) -> Value {
    let j = match &r {
        PutResult::Put => json!({"t":"Put"}),
        PutResult::Update(o) => {
            h.out_toks.push(o.tok);
            json!({"t":"Update","old":o.read()})
        }
        PutResult::Evicted { key, value } => {
            out_key(key, h);
            h.out_toks.push(value.tok);
            json!({"t":"Evicted","ek":key.id(),"ev":value.read()})
        }
        PutResult::EvictedAndUpdate { evicted, update } => {
            out_key(&evicted.0, h);
            h.out_toks.push(evicted.1.tok);
            h.out_toks.push(update.tok);
            json!({"t":"EvictedAndUpdate","ek":evicted.0.id(),"ev":evicted.1.read(),"old":update.read()})
        }
    };
    h.kept.push(Kept::Pr(r));
    j
}
pub fn opt_ref(o: Option<&TV>) -> Value {
    match o {
        Some(v) => json!({"t":"Some","val":v.read()}),
        None => json!({"t":"None"}),
    }
}
/// a mutable reference was handed out: read the old value, optionally write `w` through it
pub fn opt_mut(o: Option<&mut TV>, w: u64) -> Value {
    match o {
        Some(v) => {
            let old = v.read();
            if w != 0 {
                v.val = w;
            }
            json!({"t":"Some","val":old})
        }
        None => json!({"t":"None"}),
    }
}
pub fn opt_owned<K>(o: Option<TV>, h: &mut Hold<K>) -> Value {
    match o {
        Some(v) => {
            h.out_toks.push(v.tok);
            let j = json!({"t":"Some","val":v.read()});
            h.kept.push(Kept::V(v));
            j
        }
        None => json!({"t":"None"}),
    }
}
pub fn kv_ref<K: KeyT>(o: Option<(&K, &TV)>) -> Value {
    match o {
        Some((k, v)) => json!({"t":"SomeKV","k":k.id(),"val":v.read()}),
        None => json!({"t":"None"}),
    }
}
pub fn kv_mut<K: KeyT>(o: Option<(&K, &mut TV)>, w: u64) -> Value {
    match o {
        Some((k, v)) => {
            let old = v.read();
            if w != 0 {
                v.val = w;
            }
            json!({"t":"SomeKV","k":k.id(),"val":old})
        }
        None => json!({"t":"None"}),
    }
}
pub fn kv_owned<K: KeyT>(o: Option<(K, TV)>, h: &mut Hold<K>) -> Value {
    match o {
        Some((k, v)) => {
            out_key(&k, h);
            h.out_toks.push(v.tok);
            let j = json!({"t":"SomeKV","k":k.id(),"val":v.read()});
            h.kept.push(Kept::Kv(k, v));
            j
        }
        None => json!({"t":"None"}),
    }
}
fn rint(n: u64) -> Value {
    json!({"t":"Int","n":n})
}
fn rbool(b: bool) -> Value {
    json!({"t":"Bool","b":b})
}
fn runit() -> Value {
    json!({"t":"Unit"})
}

/// operations of the `Cache` trait, shared by every type
pub fn common_apply<K: KeyT, C: Cache<K, TV>>(c: &mut C, op: &Value, h: &mut Hold<K>) -> Option<Value> {
    let k = u(op, "k");
    let w = u(op, "w");
    Some(match s(op, "op") {
        "put" => {
            let (key, val) = (new_key::<K>(k, h), new_val(u(op, "v"), h));
            let r = c.put(key, val);
            pr_json(r, h)
        }
        "get" => K::with_q(k, |q| opt_ref(c.get(q))),
        "get_mut" => K::with_q(k, |q| opt_mut(c.get_mut(q), w)),
        "peek" => K::with_q(k, |q| opt_ref(c.peek(q))),
        "peek_mut" => K::with_q(k, |q| opt_mut(c.peek_mut(q), w)),
        "contains" => K::with_q(k, |q| rbool(c.contains(q))),
        "remove" => {
            let r = K::with_q(k, |q| c.remove(q));
            opt_owned(r, h)
        }
        "purge" => {
            c.purge();
            runit()
        }
        "len" => rint(c.len() as u64),
        "cap" => rint((c.cap() as u64).min(2147483647)),      // usize::MAX is logged as 2^31-1 (TLC integers)
        "is_empty" => rbool(c.is_empty()),
        _ => return None,
    })
}

pub fn ents<'a, K: KeyT + 'a>(it: impl Iterator<Item = (&'a K, &'a TV)>) -> Vec<Ent> {
    it.map(|(k, v)| {
        if !k.alive() {
            crate::track::anomaly("dead-key-in-list".to_string());
        }
        (k.id(), v.read(), k.tok(), v.tok)
    })
    .collect()
}

/// configuration of one run (which hashers, which construction path)
#[derive(Clone)]
pub struct Env {
    pub hasher: String,
    pub kh_table: Rc<Vec<u64>>,
    /// use the constructors that take no hasher (DefaultHashBuilder) where they exist
    pub default_ctor: bool,
}
impl Env {
    pub fn bh(&self) -> DynBH {
        DynBH::of(&self.hasher)
    }
}

pub trait Sut<K: KeyT>: Sized {
    const KIND: &'static str;
    fn build(cfg: &Value, env: &Env) -> Result<Self, String>;
    fn apply(&mut self, op: &Value, h: &mut Hold<K>) -> Value;
    /// named partitions, most-recent-first
    fn parts(&self) -> Vec<(&'static str, Vec<Ent>)>;
    fn c_len(&self) -> usize;
    fn c_cap(&self) -> usize;
    fn c_empty(&self) -> bool;
    fn c_contains(&self, id: u64) -> bool;
    fn c_peek(&self, id: u64) -> Option<u64>;
    /// type-specific scalar observations (public accessors, hooks)
    fn extra(&self, _uni: &[u64], _m: &mut Map<String, Value>) {}
    fn audits(&self) -> Vec<VerifAudit>;
    fn try_clone(&self) -> Option<Self> {
        None
    }
    /// the read-only operations of this type (C13 battery), given the key universe
    fn ro_ops(uni: &[u64]) -> Vec<Value> {
        let mut v = vec![];
        for &k in uni {
            v.push(json!({"op":"peek","k":k}));
            v.push(json!({"op":"peek_mut","k":k,"w":0}));
            v.push(json!({"op":"contains","k":k}));
        }
        v.push(json!({"op":"len"}));
        v.push(json!({"op":"cap"}));
        v.push(json!({"op":"is_empty"}));
        v.push(json!({"op":"debug"}));
        v
    }
}

macro_rules! basics {
    () => {
        fn c_len(&self) -> usize {
            Cache::len(self)
        }
        fn c_cap(&self) -> usize {
            Cache::cap(self)
        }
        fn c_empty(&self) -> bool {
            Cache::is_empty(self)
        }
        fn c_contains(&self, id: u64) -> bool {
            K::with_q(id, |q| Cache::contains(self, q))
        }
        fn c_peek(&self, id: u64) -> Option<u64> {
            K::with_q(id, |q| Cache::peek(self, q).map(|v| v.read()))
        }
    };
}

// ---------------------------------------------------------------- RawLRU
pub type Raw<K> = RawLRU<K, TV, LogCb, DynBH>;
/// the same cache built WITHOUT an eviction callback (`RawLRU::with_hasher`, the way most users build it): code that
/// branches on `on_evict.is_none()` is only reached this way
pub type RawNc<K> = RawLRU<K, TV, caches::DefaultEvictCallback, DynBH>;
macro_rules! raw_sut {
    ($ty:ident, $build:expr) => {
impl<K: KeyT> Sut<K> for $ty<K> {
    const KIND: &'static str = "raw";
    fn build(cfg: &Value, env: &Env) -> Result<Self, String> {
        let cap = u(cfg, "cap") as usize;
        let mk: fn(usize, DynBH) -> Result<Self, caches::lru::CacheError> = $build;
        mk(cap, env.bh()).map_err(|e| format!("{e:?}"))
    }
    fn apply(&mut self, op: &Value, h: &mut Hold<K>) -> Value {
        if let Some(v) = common_apply(self, op, h) {
            return v;
        }
        let (k, v, w) = (u(op, "k"), u(op, "v"), u(op, "w"));
        match s(op, "op") {
            // the largest TLC integer stands for usize::MAX ("resize to any value")
            "resize" => rint(self.resize(if u(op, "n") >= 2147483647 { usize::MAX } else { u(op, "n") as usize })),
            "remove_lru" => {
                let r = self.remove_lru();
                kv_owned(r, h)
            }
            "get_lru" => kv_ref(self.get_lru()),
            "get_mru" => kv_ref(self.get_mru()),
            "get_lru_mut" => kv_mut(self.get_lru_mut(), w),
            "get_mru_mut" => kv_mut(self.get_mru_mut(), w),
            "peek_lru" => kv_ref(self.peek_lru()),
            "peek_mru" => kv_ref(self.peek_mru()),
            "peek_lru_mut" => kv_mut(self.peek_lru_mut(), w),
            "peek_mru_mut" => kv_mut(self.peek_mru_mut(), w),
            "peek_or_put" => {
                let (key, val) = (new_key::<K>(k, h), new_val(v, h));
                let (a, b) = self.peek_or_put(key, val);
                let a = opt_ref(a);
                let b = match b {
                    Some(r) => pr_json(r, h),
                    None => json!({"t":"None"}),
                };
                json!({"t":"Pair","a":a,"b":b})
            }
            "peek_mut_or_put" => {
                let (key, val) = (new_key::<K>(k, h), new_val(v, h));
                let (a, b) = self.peek_mut_or_put(key, val);
                let a = opt_mut(a, w);
                let b = match b {
                    Some(r) => pr_json(r, h),
                    None => json!({"t":"None"}),
                };
                json!({"t":"Pair","a":a,"b":b})
            }
            "contains_or_put" => {
                let (key, val) = (new_key::<K>(k, h), new_val(v, h));
                let (a, b) = self.contains_or_put(key, val);
                let b = match b {
                    Some(r) => pr_json(r, h),
                    None => json!({"t":"None"}),
                };
                json!({"t":"Pair","a":rbool(a),"b":b})
            }
            "debug" => {
                let _ = format!("{:?}", self);
                runit()
            }
            o => panic!("harness: unknown raw op {o}"),
        }
    }
    fn parts(&self) -> Vec<(&'static str, Vec<Ent>)> {
        vec![("list", ents(self.iter()))]
    }
    basics!();
    fn audits(&self) -> Vec<VerifAudit> {
        vec![self.verif_audit()]
    }
    fn try_clone(&self) -> Option<Self> {
        Some(self.clone())
    }
    fn ro_ops(uni: &[u64]) -> Vec<Value> {
        let mut v = vec![];
        for &k in uni {
            v.push(json!({"op":"peek","k":k}));
            v.push(json!({"op":"peek_mut","k":k,"w":0}));
            v.push(json!({"op":"contains","k":k}));
        }
        for o in ["len", "cap", "is_empty", "peek_lru", "peek_mru", "get_mru", "debug"] {
            v.push(json!({ "op": o }));
        }
        for o in ["peek_lru_mut", "peek_mru_mut", "get_mru_mut"] {
            v.push(json!({"op": o, "w": 0}));
        }
        v
    }
}
    };
}
raw_sut!(Raw, |cap, bh| RawLRU::with_on_evict_cb_and_hasher(cap, LogCb, bh));
raw_sut!(RawNc, |cap, bh| RawLRU::with_hasher(cap, bh));

// ---------------------------------------------------------------- SegmentedCache
pub type Seg<K> = SegmentedCache<K, TV, DynBH, DynBH>;
fn seg_apply<K: KeyT>(c: &mut Seg<K>, op: &Value, h: &mut Hold<K>) -> Option<Value> {
    let w = u(op, "w");
    let prob = s(op, "seg") == "prob";
    let lru = s(op, "end") == "lru";
    Some(match s(op, "op") {
        "put_protected" => {
            let (key, val) = (new_key::<K>(u(op, "k"), h), new_val(u(op, "v"), h));
            let r = c.put_protected(key, val);
            pr_json(r, h)
        }
        "remove_lru_from" => {
            let r = if prob { c.remove_lru_from_probationary() } else { c.remove_lru_from_protected() };
            kv_owned(r, h)
        }
        "peek_end" => match (prob, lru) {
            (true, true) => kv_ref(c.peek_lru_from_probationary()),
            (true, false) => kv_ref(c.peek_mru_from_probationary()),
            (false, true) => kv_ref(c.peek_lru_from_protected()),
            (false, false) => kv_ref(c.peek_mru_from_protected()),
        },
        "peek_end_mut" => match (prob, lru) {
            (true, true) => kv_mut(c.peek_lru_mut_from_probationary(), w),
            (true, false) => kv_mut(c.peek_mru_mut_from_probationary(), w),
            (false, true) => kv_mut(c.peek_lru_mut_from_protected(), w),
            (false, false) => kv_mut(c.peek_mru_mut_from_protected(), w),
        },
        "seg_len" => rint(if prob { c.probationary_len() } else { c.protected_len() } as u64),
        "seg_cap" => rint(if prob { c.probationary_cap() } else { c.protected_cap() } as u64),
        _ => return None,
    })
}
impl<K: KeyT> Sut<K> for Seg<K> {
    const KIND: &'static str = "slru";
    fn build(cfg: &Value, env: &Env) -> Result<Self, String> {
        SegmentedCacheBuilder::new(u(cfg, "a") as usize, u(cfg, "b") as usize)
            .set_probationary_hasher(env.bh())
            .set_protected_hasher(env.bh())
            .finalize()
            .map_err(|e| format!("{e:?}"))
    }
    fn apply(&mut self, op: &Value, h: &mut Hold<K>) -> Value {
        if let Some(v) = common_apply(self, op, h) {
            return v;
        }
        if let Some(v) = seg_apply(self, op, h) {
            return v;
        }
        match s(op, "op") {
            "debug" => runit(),
            o => panic!("harness: unknown slru op {o}"),
        }
    }
    fn parts(&self) -> Vec<(&'static str, Vec<Ent>)> {
        let (prob, prot) = self.verif_parts();
        vec![("prob", ents(prob.iter())), ("prot", ents(prot.iter()))]
    }
    basics!();
    fn extra(&self, _uni: &[u64], m: &mut Map<String, Value>) {
        m.insert("prob_len".into(), json!(self.probationary_len()));
        m.insert("prot_len".into(), json!(self.protected_len()));
        m.insert("prob_cap".into(), json!(self.probationary_cap()));
        m.insert("prot_cap".into(), json!(self.protected_cap()));
    }
    fn audits(&self) -> Vec<VerifAudit> {
        let (a, b) = self.verif_parts();
        vec![a.verif_audit(), b.verif_audit()]
    }
    fn try_clone(&self) -> Option<Self> {
        Some(self.clone())
    }
    fn ro_ops(uni: &[u64]) -> Vec<Value> {
        let mut v = vec![];
        for &k in uni {
            v.push(json!({"op":"peek","k":k}));
            v.push(json!({"op":"peek_mut","k":k,"w":0}));
            v.push(json!({"op":"contains","k":k}));
        }
        for o in ["len", "cap", "is_empty"] {
            v.push(json!({ "op": o }));
        }
        for seg in ["prob", "prot"] {
            v.push(json!({"op":"seg_len","seg":seg}));
            v.push(json!({"op":"seg_cap","seg":seg}));
            for end in ["lru", "mru"] {
                v.push(json!({"op":"peek_end","seg":seg,"end":end}));
                v.push(json!({"op":"peek_end_mut","seg":seg,"end":end,"w":0}));
            }
        }
        v
    }
}

// ---------------------------------------------------------------- TwoQueueCache
pub type TwoQ<K> = TwoQueueCache<K, TV, DynBH, DynBH, DynBH>;
/// ratio r with floor(size * r) == n, robust against rounding
pub fn ratio_for(size: u64, n: u64) -> f64 {
    if n >= size {
        1.0
    } else if n == 0 {
        0.0
    } else {
        (n as f64 + 0.5) / size as f64
    }
}
impl<K: KeyT> Sut<K> for TwoQ<K> {
    const KIND: &'static str = "2q";
    fn build(cfg: &Value, env: &Env) -> Result<Self, String> {
        let size = u(cfg, "size");
        let rr = cfg.get("rr").and_then(|v| v.as_f64()).unwrap_or_else(|| ratio_for(size, u(cfg, "q")));
        let gr = cfg.get("gr").and_then(|v| v.as_f64()).unwrap_or_else(|| ratio_for(size, u(cfg, "g")));
        TwoQueueCacheBuilder::new(size as usize)
            .set_recent_ratio(rr)
            .set_ghost_ratio(gr)
            .set_recent_hasher(env.bh())
            .set_frequent_hasher(env.bh())
            .set_ghost_hasher(env.bh())
            .finalize()
            .map_err(|e| format!("{e:?}"))
    }
    fn apply(&mut self, op: &Value, h: &mut Hold<K>) -> Value {
        if let Some(v) = common_apply(self, op, h) {
            return v;
        }
        match s(op, "op") {
            "debug" => {
                let _ = format!("{:?}", self);
                runit()
            }
            o => panic!("harness: unknown 2q op {o}"),
        }
    }
    fn parts(&self) -> Vec<(&'static str, Vec<Ent>)> {
        vec![
            ("recent", ents(self.recent_iter())),
            ("frequent", ents(self.frequent_iter())),
            ("ghost", ents(self.ghost_iter())),
        ]
    }
    basics!();
    fn extra(&self, _uni: &[u64], m: &mut Map<String, Value>) {
        m.insert("recent_len".into(), json!(self.recent_len()));
        m.insert("frequent_len".into(), json!(self.frequent_len()));
        m.insert("ghost_len".into(), json!(self.ghost_len()));
        m.insert("q".into(), json!(self.verif_recent_quota()));
        m.insert("g".into(), json!(self.verif_parts().2.cap()));
    }
    fn audits(&self) -> Vec<VerifAudit> {
        let (a, b, c) = self.verif_parts();
        vec![a.verif_audit(), b.verif_audit(), c.verif_audit()]
    }
}

// ---------------------------------------------------------------- AdaptiveCache
pub type Arc<K> = AdaptiveCache<K, TV, DynBH, DynBH, DynBH, DynBH>;
impl<K: KeyT> Sut<K> for Arc<K> {
    const KIND: &'static str = "arc";
    fn build(cfg: &Value, env: &Env) -> Result<Self, String> {
        AdaptiveCacheBuilder::new(u(cfg, "size") as usize)
            .set_recent_hasher(env.bh())
            .set_frequent_hasher(env.bh())
            .set_recent_evict_hasher(env.bh())
            .set_frequent_evict_hasher(env.bh())
            .finalize()
            .map_err(|e| format!("{e:?}"))
    }
    fn apply(&mut self, op: &Value, h: &mut Hold<K>) -> Value {
        if let Some(v) = common_apply(self, op, h) {
            return v;
        }
        match s(op, "op") {
            "debug" => runit(),
            o => panic!("harness: unknown arc op {o}"),
        }
    }
    fn parts(&self) -> Vec<(&'static str, Vec<Ent>)> {
        vec![
            ("t1", ents(self.recent_iter())),
            ("t2", ents(self.frequent_iter())),
            ("b1", ents(self.recent_evict_iter())),
            ("b2", ents(self.frequent_evict_iter())),
        ]
    }
    basics!();
    fn extra(&self, _uni: &[u64], m: &mut Map<String, Value>) {
        m.insert("p".into(), json!(self.partition()));
        m.insert("t1_len".into(), json!(self.recent_len()));
        m.insert("t2_len".into(), json!(self.frequent_len()));
        m.insert("b1_len".into(), json!(self.recent_evict_len()));
        m.insert("b2_len".into(), json!(self.frequent_evict_len()));
    }
    fn audits(&self) -> Vec<VerifAudit> {
        let (a, b, c, d) = self.verif_parts();
        vec![a.verif_audit(), b.verif_audit(), c.verif_audit(), d.verif_audit()]
    }
}

// ---------------------------------------------------------------- WTinyLFUCache
pub type Wt<K> = WTinyLFUCache<K, TV, TabKH, DynBH, DynBH, DynBH>;
/// Seed-independent digest of the estimator state: per sketch row the histogram of the 4-bit
/// counter values (the std sketch places counters at time-seeded positions, so positions are
/// not comparable between two instances) plus the doorkeeper words (not seeded).
pub fn digest(rows: &[Vec<u8>], words: &[u64]) -> String {
    let mut h: u64 = 0xcbf2_9ce4_8422_2325;
    let mut mix = |x: u64| {
        for b in x.to_le_bytes() {
            h = (h ^ b as u64).wrapping_mul(0x0100_0000_01b3);
        }
    };
    for r in rows {
        let mut hist = [0u64; 16];
        for &b in r {
            hist[(b & 0x0f) as usize] += 1;
            hist[(b >> 4) as usize] += 1;
        }
        for c in hist {
            mix(c);
        }
    }
    for &w in words {
        mix(w);
    }
    format!("{h:016x}")
}
impl<K: KeyT> Sut<K> for Wt<K> {
    const KIND: &'static str = "wtlfu";
    fn build(cfg: &Value, env: &Env) -> Result<Self, String> {
        WTinyLFUCacheBuilder::<K, TabKH, DynBH, DynBH, DynBH>::with_hashers(
            TabKH { table: env.kh_table.clone() },
            env.bh(),
            env.bh(),
            env.bh(),
        )
        .set_samples(u(cfg, "samples") as usize)
        .set_window_cache_size(u(cfg, "w") as usize)
        .set_probationary_cache_size(u(cfg, "a") as usize)
        .set_protected_cache_size(u(cfg, "b") as usize)
        .finalize()
        .map_err(|e| format!("{e:?}"))
    }
    fn apply(&mut self, op: &Value, h: &mut Hold<K>) -> Value {
        if let Some(v) = common_apply(self, op, h) {
            return v;
        }
        match s(op, "op") {
            "debug" => runit(),
            "window_len" => rint(self.window_cache_len() as u64),
            "window_cap" => rint(self.window_cache_cap() as u64),
            "main_len" => rint(self.main_cache_len() as u64),
            "main_cap" => rint(self.main_cache_cap() as u64),
            o => panic!("harness: unknown wtlfu op {o}"),
        }
    }
    fn parts(&self) -> Vec<(&'static str, Vec<Ent>)> {
        let (win, main, _) = self.verif_parts();
        let (prob, prot) = main.verif_parts();
        vec![("win", ents(win.iter())), ("prob", ents(prob.iter())), ("prot", ents(prot.iter()))]
    }
    basics!();
    fn extra(&self, uni: &[u64], m: &mut Map<String, Value>) {
        let (_, main, lfu) = self.verif_parts();
        m.insert("win_len".into(), json!(self.window_cache_len()));
        m.insert("win_cap".into(), json!(self.window_cache_cap()));
        m.insert("main_len".into(), json!(self.main_cache_len()));
        m.insert("main_cap".into(), json!(self.main_cache_cap()));
        m.insert("prob_len".into(), json!(main.probationary_len()));
        m.insert("prot_len".into(), json!(main.protected_len()));
        // estimator view over the key universe: estimate, doorkeeper bit
        let est: Vec<u64> = uni.iter().map(|&k| K::with_q(k, |q| lfu.estimate(q))).collect();
        let dk: Vec<bool> = uni.iter().map(|&k| K::with_q(k, |q| lfu.contains(q))).collect();
        m.insert("est".into(), json!(est));
        m.insert("dk".into(), json!(dk));
        let (w, samples) = lfu.verif_w();
        m.insert("w".into(), json!(w));
        m.insert("samples".into(), json!(samples));
        let (rows, words) = lfu.verif_state();
        m.insert("sketch".into(), json!(digest(&rows, &words)));
    }
    fn audits(&self) -> Vec<VerifAudit> {
        let (win, main, _) = self.verif_parts();
        let (a, b) = main.verif_parts();
        vec![win.verif_audit(), a.verif_audit(), b.verif_audit()]
    }
    fn try_clone(&self) -> Option<Self> {
        Some(self.clone())
    }
    fn ro_ops(uni: &[u64]) -> Vec<Value> {
        let mut v = vec![];
        for &k in uni {
            v.push(json!({"op":"peek","k":k}));
            v.push(json!({"op":"peek_mut","k":k,"w":0}));
            v.push(json!({"op":"contains","k":k}));
        }
        for o in ["len", "cap", "is_empty", "window_len", "window_cap", "main_len", "main_cap"] {
            v.push(json!({ "op": o }));
        }
        v
    }
}
