//! Driver execution: replays specification behaviours (TLC "STATE" lines = BFS-tree path to a
//! reachable state; every operation of the alphabet is then applied from that state) and
//! random histories on the real caches, and logs one event per public call.
use crate::qalloc;
use crate::sut::{Env, Hold, Sut};
use crate::track::{self, KeyT};
use serde_json::{json, Map, Value};
use std::collections::HashMap;
use std::io::{BufRead, Write};
use std::panic::{catch_unwind, AssertUnwindSafe};

#[derive(Clone, Default)]
pub struct Flags {
    pub audit: bool,
    pub tok: bool,
    /// execute the read-only battery at every state
    pub ro: bool,
    /// drop the cache at the end of every test and log a `drop` event
    pub drop_ev: bool,
    /// clone in every state and run the operation on both instances (C16)
    pub clone_ev: bool,
    /// perturb allocation addresses: keep a pseudo-random number of node-sized blocks alive per test
    pub shuffle: u64,
    /// C18: enumerate panic injection points
    pub faults: bool,
    /// execute only (for runs under Miri, where the interpreter is the judge): no observations are serialised
    pub light: bool,
    /// print the test about to run on stderr (used to locate a crash of the process)
    pub progress: bool,
}

/// output that rotates to a new file at test boundaries (`<prefix>.<n>.ndjson`)
pub struct ShardWriter {
    prefix: Option<String>,
    per_shard: u64,
    n_in_shard: u64,
    pub shard: u64,
    pub mute: bool,
    w: Box<dyn Write>,
}
impl ShardWriter {
    pub fn new(prefix: Option<String>, per_shard: u64) -> Self {
        let w: Box<dyn Write> = match &prefix {
            Some(p) => Box::new(std::io::BufWriter::with_capacity(1 << 20, std::fs::File::create(format!("{p}.0.ndjson")).expect("create shard"))),
            None => Box::new(std::io::BufWriter::with_capacity(1 << 20, std::io::stdout())),
        };
        ShardWriter { prefix, per_shard, n_in_shard: 0, shard: 0, mute: false, w }
    }
    pub fn line(&mut self, v: &Value) {
        if self.mute {
            self.n_in_shard += 1;
            return;
        }
        writeln!(self.w, "{}", v).unwrap();
        self.n_in_shard += 1;
    }
    /// called before a jump record: a new shard may start here
    pub fn boundary(&mut self) {
        if let Some(p) = &self.prefix {
            if self.per_shard > 0 && self.n_in_shard >= self.per_shard {
                self.w.flush().unwrap();
                self.shard += 1;
                self.n_in_shard = 0;
                self.w = Box::new(std::io::BufWriter::with_capacity(1 << 20, std::fs::File::create(format!("{p}.{}.ndjson", self.shard)).expect("create shard")));
            }
        }
    }
    pub fn finish(&mut self) {
        self.w.flush().unwrap();
    }
}

pub struct AddrIds {
    map: HashMap<usize, u64>,
}
impl AddrIds {
    pub fn new() -> Self {
        AddrIds { map: HashMap::new() }
    }
    fn id(&mut self, a: usize) -> u64 {
        let n = self.map.len() as u64 + 1;
        *self.map.entry(a).or_insert(n)
    }
}

fn ents_json(es: &[(u64, u64, u64, u64)]) -> Value {
    Value::Array(es.iter().map(|e| json!({"k": e.0, "v": e.1})).collect())
}
fn toks_json(es: &[(u64, u64, u64, u64)]) -> Value {
    Value::Array(es.iter().map(|e| json!([e.2, e.3])).collect())
}

/// full observation of an instance after a call returned
/// progress counter watched by the watchdog thread of main.rs: a library call that never returns (a cycle in a list)
/// stops it, and the process is aborted instead of hanging the check
pub static HEARTBEAT: std::sync::atomic::AtomicU64 = std::sync::atomic::AtomicU64::new(0);
#[inline]
pub fn beat() {
    HEARTBEAT.fetch_add(1, std::sync::atomic::Ordering::Relaxed);
}

pub fn observe<K: KeyT, S: Sut<K>>(c: &S, uni: &[u64], fl: &Flags, ids: &mut AddrIds) -> Value {
    beat();
    if fl.light {
        // touch everything an observation touches, serialise nothing
        let n: usize = c.parts().iter().map(|p| p.1.len()).sum();
        let a = c.audits().len();
        let k = uni.iter().filter(|&&k| c.c_contains(k) && c.c_peek(k).is_some()).count();
        // (wrapping: cap() may be usize::MAX after resize(usize::MAX))
        let sum = n.wrapping_add(a).wrapping_add(k).wrapping_add(c.c_len()).wrapping_add(c.c_cap()).wrapping_add(c.c_empty() as usize);
        return json!({"light": sum, "empty": c.c_empty()});
    }
    let mut m = Map::new();
    let parts = c.parts();
    for (name, es) in &parts {
        m.insert((*name).into(), ents_json(es));
    }
    if fl.tok {
        let mut t = Map::new();
        for (name, es) in &parts {
            t.insert((*name).into(), toks_json(es));
        }
        m.insert("tok".into(), Value::Object(t));
    }
    c.extra(uni, &mut m);
    // read-only battery that every observation performs
    m.insert("len".into(), json!(c.c_len()));
    m.insert("cap".into(), json!(c.c_cap().min(2147483647)));      // TLC integers are 32-bit: usize::MAX is logged as 2^31-1
    m.insert("empty".into(), json!(c.c_empty()));
    let contains: Vec<u64> = uni.iter().copied().filter(|&k| c.c_contains(k)).collect();
    m.insert("contains".into(), json!(contains));
    let peek: Vec<Value> = uni.iter().filter_map(|&k| c.c_peek(k).map(|v| json!({"k": k, "v": v}))).collect();
    m.insert("peek".into(), Value::Array(peek));
    // did the battery itself leave the state alone?
    let again = c.parts();
    let mut m2 = Map::new();
    c.extra(uni, &mut m2);
    let stable = again == parts && m2.iter().all(|(k, v)| m.get(k) == Some(v));
    m.insert("stable".into(), json!(stable));
    if fl.audit {
        let mut au = vec![];
        for a in c.audits() {
            let fwd: Vec<u64> = a.fwd.iter().map(|&x| ids.id(x)).collect();
            let bwd: Vec<u64> = a.bwd.iter().map(|&x| ids.id(x)).collect();
            let idx: Vec<Value> = a
                .idx
                .iter()
                .map(|&(kp, np)| json!([ids.id(kp.wrapping_sub(a.key_offset)), ids.id(np)]))
                .collect();
            let mut idx = idx;
            idx.sort_by_key(|v| v[1].as_u64());
            let freed = a.fwd.iter().chain(a.bwd.iter()).chain(a.idx.iter().map(|p| &p.1)).filter(|&&x| crate::GLOBAL.is_quarantined(x)).count();
            au.push(json!({"fwd": fwd, "bwd": bwd, "idx": idx, "closed": a.fwd_closed && a.bwd_closed, "freed_reachable": freed,
                           "len": a.len, "cap": a.cap, "head": ids.id(a.head), "tail": ids.id(a.tail)}));
        }
        m.insert("audit".into(), Value::Array(au));
    }
    Value::Object(m)
}

pub struct Runner<'a, K: KeyT, S: Sut<K>> {
    pub cfg: Value,
    pub env: Env,
    pub uni: Vec<u64>,
    pub fl: Flags,
    pub out: &'a mut ShardWriter,
    pub sid: u64,
    /// tokens dropped or handed back so far in the current test (C18)
    pub gone: Vec<u64>,
    pub stats: Stats,
    _p: std::marker::PhantomData<(K, S)>,
}
#[derive(Default, Debug)]
pub struct Stats {
    pub states: u64,
    pub tests: u64,
    pub events: u64,
    pub panics: u64,
    pub jumps: u64,
    pub anomalies: u64,
    pub unreachable_prefix: u64,
    /// events made from a non-empty pre-state (each (state, op) pair is distinct by construction)
    pub nontrivial: u64,
    /// events by "op:result variant"
    pub by_kind: std::collections::BTreeMap<String, u64>,
}

struct Inst<K: KeyT, S: Sut<K>> {
    c: Option<S>,
    ids: AddrIds,
    _p: std::marker::PhantomData<K>,
}

impl<'a, K: KeyT, S: Sut<K>> Runner<'a, K, S> {
    pub fn new(cfg: Value, env: Env, nkeys: u64, fl: Flags, out: &'a mut ShardWriter) -> Self {
        Runner { cfg, env, uni: (1..=nkeys).collect(), fl, out, sid: 0, gone: vec![], stats: Stats::default(), _p: Default::default() }
    }

    fn build(&self) -> Option<S> {
        let r = catch_unwind(AssertUnwindSafe(|| qalloc::tracked(|| S::build(&self.cfg, &self.env))));
        match r {
            Ok(Ok(c)) => Some(c),
            _ => None,
        }
    }

    /// apply one op, returning the event record (without obs)
    fn call(&mut self, c: &mut S, op: &Value) -> (Value, bool) {
        beat();
        if self.fl.progress {
            eprintln!("PROGRESS {} {}", self.sid, op);
        }
        let mut h: Hold<K> = Hold::new();
        let d0 = track::drops_len();
        let _ = track::cb_take();
        let r = catch_unwind(AssertUnwindSafe(|| {
            qalloc::tracked(|| {
                if op["op"] == "clone_drop" {
                    // C18: Clone of keys/values and re-hashing are user code too
                    let d = c.try_clone();
                    drop(d);
                    json!({"t":"Unit"})
                } else {
                    c.apply(op, &mut h)
                }
            })
        }));
        track::fuse_disarm();
        let drops = track::drops_since(d0);
        let cb = track::cb_take();
        let mut ev = op.clone();
        let panicked = r.is_err();
        ev["ret"] = match r {
            Ok(v) => v,
            Err(_) => json!({"t":"Panic"}),
        };
        ev["panic"] = json!(panicked);
        ev["cb"] = Value::Array(cb.iter().map(|c| json!([c.0, c.1])).collect());
        if self.fl.tok {
            ev["in"] = json!(h.in_toks);
            ev["out"] = json!(h.out_toks);
            ev["drops"] = json!(drops);
            ev["cbtok"] = Value::Array(cb.iter().map(|c| json!([c.2, c.3])).collect());
        }
        if self.fl.faults {
            ev["gone_before"] = json!(self.gone);
            self.gone.extend(drops.iter().copied());
            self.gone.extend(h.out_toks.iter().copied());
            let df = qalloc::take_double_frees();
            if df > 0 {
                track::anomaly(format!("double-free of {df} node(s)"));
            }
        }
        // returned objects die here, after the drop log was read
        drop(h);
        (ev, panicked)
    }

    fn finish_event(&mut self, mut ev: Value, c: &S, ids: &mut AddrIds, chain: bool) {
        let obs = catch_unwind(AssertUnwindSafe(|| observe(c, &self.uni, &self.fl, ids)));
        ev["obs"] = obs.unwrap_or_else(|_| json!({}));
        ev["chain"] = json!(chain);
        let an = track::take_anomalies();
        self.stats.anomalies += an.len() as u64;
        ev["anomalies"] = json!(an);
        if self.fl.tok {
            ev["live"] = json!(qalloc::live());
        }
        self.stats.events += 1;
        let key = format!("{}:{}", ev["op"].as_str().unwrap_or("?"), ev["ret"]["t"].as_str().unwrap_or("?"));
        *self.stats.by_kind.entry(key).or_insert(0) += 1;
        if ev["cb"].as_array().map_or(false, |a| !a.is_empty()) {
            *self.stats.by_kind.entry("cb:nonempty".into()).or_insert(0) += 1;
        }
        if let Some(k) = ev["fault"]["kind"].as_str() {
            if ev["fault"]["fired"] == json!(true) {
                *self.stats.by_kind.entry(format!("fault:{k}")).or_insert(0) += 1;
            }
        }
        if let Some(pr) = ev["ret"]["b"]["t"].as_str() {
            *self.stats.by_kind.entry(format!("{}:b={}", ev["op"].as_str().unwrap_or("?"), pr)).or_insert(0) += 1;
        }
        self.out.line(&ev);
    }

    fn jump(&mut self, c: &S, ids: &mut AddrIds) -> Value {
        let obs = observe(c, &self.uni, &self.fl, ids);
        let mut j = json!({"op":"jump","obs":obs});
        j["anomalies"] = json!(track::take_anomalies());
        if self.fl.tok {
            j["live"] = json!(qalloc::live());
        }
        self.stats.jumps += 1;
        j["sid"] = json!(self.sid);
        self.out.boundary();
        self.out.line(&j);
        j["obs"].take()
    }

    fn replay(&self, path: &[Value]) -> Option<S> {
        track::reset_tokens();
        track::drops_clear();
        self.perturb();
        let mut c = self.build()?;
        let ok = catch_unwind(AssertUnwindSafe(|| {
            for op in path {
                beat();
                let mut h: Hold<K> = Hold::new();
                qalloc::tracked(|| c.apply(op, &mut h));
            }
        }))
        .is_ok();
        let _ = track::cb_take();
        if ok {
            Some(c)
        } else {
            std::mem::forget(c);
            None
        }
    }

    /// C17 (allocation addresses): shift the heap layout differently for every test
    fn perturb(&self) {
        if self.fl.shuffle == 0 {
            return;
        }
        thread_local! { static PAD: std::cell::RefCell<(u64, Vec<Vec<u8>>)> = const { std::cell::RefCell::new((0, Vec::new())) }; }
        PAD.with(|p| {
            let mut p = p.borrow_mut();
            if p.0 == 0 {
                p.0 = self.fl.shuffle | 1;
            }
            let mut x = p.0;
            x ^= x << 13;
            x ^= x >> 7;
            x ^= x << 17;
            p.0 = x;
            let keep = (x % 11) as usize;
            p.1.clear();
            for i in 0..keep {
                p.1.push(vec![0u8; 48 + 16 * ((x >> (i % 8)) as usize % 3)]);
            }
        });
    }

    fn end_test(&mut self, c: S, ids: &mut AddrIds) {
        if self.fl.drop_ev {
            let d0 = track::drops_len();
            let r = catch_unwind(AssertUnwindSafe(|| qalloc::tracked(|| drop(c))));
            let mut ev = json!({"op":"drop","panic": r.is_err(), "chain": true, "obs": {}});
            ev["drops"] = json!(track::drops_since(d0));
            if self.fl.faults {
                ev["gone_before"] = json!(self.gone);
                let df = qalloc::take_double_frees();
                if df > 0 {
                    track::anomaly(format!("double-free of {df} node(s)"));
                }
            }
            ev["live"] = json!(qalloc::live());
            ev["anomalies"] = json!(track::take_anomalies());
            let _ = ids;
            *self.stats.by_kind.entry("drop:?".into()).or_insert(0) += 1;
            self.stats.events += 1;
            self.out.line(&ev);
        } else {
            let _ = catch_unwind(AssertUnwindSafe(|| drop(c)));
        }
        track::drops_clear();
        let _ = track::take_anomalies();
    }

    /// one reachable state (given by a path), every op of the alphabet applied from it
    pub fn run_state(&mut self, path: &[Value], ops: &[Value]) {
        self.stats.states += 1;
        let mut base_obs: Option<Value> = None;
        let mut all_ops: Vec<Value> = vec![];
        for op in ops {
            if op["op"] == "ro" {
                if self.fl.ro {
                    all_ops.extend(S::ro_ops(&self.uni));
                }
            } else {
                all_ops.push(op.clone());
            }
        }
        for op in &all_ops {
            let Some(mut c) = self.replay(path) else {
                self.stats.unreachable_prefix += 1;
                return;
            };
            self.stats.tests += 1;
            let mut ids = AddrIds::new();
            // the state actually reached; re-announce it only if it differs from the last jump
            let pre = observe(&c, &self.uni, &self.fl, &mut AddrIds::new());
            let same = match &base_obs {
                Some(b) => *b == pre,
                None => false,
            };
            if !same {
                let o = self.jump(&c, &mut ids);
                base_obs = Some(o);
            }
            if self.fl.clone_ev {
                self.clone_pair(&mut c, op, &mut ids, false);
                self.end_test(c, &mut ids);
                continue;
            }
            if pre["empty"] == json!(false) {
                self.stats.nontrivial += 1;
            }
            let (ev, panicked) = self.call(&mut c, op);
            if panicked {
                self.stats.panics += 1;
                self.finish_event(ev, &c, &mut ids, false);
                std::mem::forget(c);
                continue;
            }
            self.finish_event(ev, &c, &mut ids, false);
            self.end_test(c, &mut ids);
        }
    }

    /// C18: for one reachable state and every operation: count the calls into user code the operation makes
    /// (dry run), then for every kind of user code and every i: arm the fuse so that the i-th such call
    /// panics, run the operation, then keep using the cache (lookups of every key, full observation,
    /// purge) and finally drop it.
    pub fn run_fault_state(&mut self, path: &[Value], ops: &[Value], max_per_kind: u64) {
        self.run_fault_state_lim(path, ops, max_per_kind, usize::MAX)
    }
    /// the same with at most `probe_keys` keys probed after the fault (large key universes)
    pub fn run_fault_state_lim(&mut self, path: &[Value], ops: &[Value], max_per_kind: u64, probe_keys: usize) {
        self.stats.states += 1;
        let mut ops: Vec<Value> = ops.to_vec();
        ops.push(json!({"op":"clone_drop"}));
        for op in &ops {
            if op["op"] == "ro" {
                continue;
            }
            // dry run: how many user-code calls of each kind does this operation make here?
            let Some(mut c) = self.replay(path) else { return };
            track::fuse_begin(false, 0, 0);
            let (_, dry_panicked) = self.call(&mut c, op);
            let (counts, _) = track::fuse_end();
            let dry: Result<(), ()> = if dry_panicked { Err(()) } else { Ok(()) };
            let _ = catch_unwind(AssertUnwindSafe(|| drop(c)));
            if dry.is_err() {
                continue;
            }
            for kind in 1..8u8 {
                for at in 1..=counts[kind as usize].min(max_per_kind) {
                    let Some(mut c) = self.replay(path) else { return };
                    self.stats.tests += 1;
                    self.gone.clear();
                    let _ = qalloc::take_double_frees();
                    let mut ids = AddrIds::new();
                    self.jump(&c, &mut ids);
                    // the faulting operation
                    track::fuse_begin(true, kind, at);
                    let (mut ev, panicked) = self.call(&mut c, op);
                    let (_, fired) = track::fuse_end();
                    ev["fault"] = json!({"kind": track::KIND_NAMES[kind as usize], "at": at, "fired": fired});
                    if panicked {
                        self.stats.panics += 1;
                    }
                    if fired {
                        self.stats.nontrivial += 1;
                    }
                    self.finish_event(ev, &c, &mut ids, false);
                    // keep using the cache: every key, then purge
                    let mut probes: Vec<Value> = self.uni.iter().take(probe_keys).map(|&k| json!({"op":"get","k":k})).collect();
                    probes.push(json!({"op":"put","k": self.uni[0], "v": 1}));
                    probes.push(json!({"op":"purge"}));
                    for p in &probes {
                        let (mut ev, _) = self.call(&mut c, p);
                        ev["probe"] = json!(true);
                        self.finish_event(ev, &c, &mut ids, true);
                    }
                    self.end_test(c, &mut ids);
                }
            }
        }
    }

    /// C16: clone, compare, run `op` on both, then run it on the original only
    /// (`chained`: the pre-state of the clone record is the previous event's state, not the last jump)
    fn clone_pair(&mut self, c: &mut S, op: &Value, ids: &mut AddrIds, chained: bool) {
        let r = catch_unwind(AssertUnwindSafe(|| qalloc::tracked(|| c.try_clone())));
        let Ok(Some(mut d)) = r else {
            let ev = json!({"op":"clone","panic": r.is_err(), "chain": chained, "obs": {}, "obs2": {}, "unsupported": r.is_ok()});
            self.out.line(&ev);
            self.stats.events += 1;
            return;
        };
        let mut ids2 = AddrIds::new();
        let o1 = observe(c, &self.uni, &self.fl, ids);
        let o2 = observe(&d, &self.uni, &self.fl, &mut ids2);
        self.out.line(&json!({"op":"clone","panic":false,"chain":chained,"obs":o1,"obs2":o2}));
        // the same operation on both
        let (mut e1, p1) = self.call(c, op);
        let (e2, p2) = self.call(&mut d, op);
        let o1 = observe(c, &self.uni, &self.fl, ids);
        let o2 = observe(&d, &self.uni, &self.fl, &mut ids2);
        e1["op2"] = e1["op"].clone();
        e1["op"] = json!("both");
        e1["ret2"] = e2["ret"].clone();
        e1["cb2"] = e2["cb"].clone();
        e1["panic"] = json!(p1 || p2);
        e1["obs"] = o1;
        e1["obs2"] = o2;
        e1["chain"] = json!(true);
        self.out.line(&e1);
        // independence: one more operation on the clone only, then drop the clone
        let (mut e3, p3) = self.call(&mut d, op);
        let o1b = observe(c, &self.uni, &self.fl, ids);
        e3["op2"] = e3["op"].clone();
        e3["op"] = json!("clone_only");
        e3["panic"] = json!(p3);
        e3["obs"] = o1b;
        e3["chain"] = json!(true);
        self.out.line(&e3);
        let _ = catch_unwind(AssertUnwindSafe(|| drop(d)));
        let o1c = observe(c, &self.uni, &self.fl, ids);
        self.out.line(&json!({"op":"clone_dropped","panic":false,"chain":true,"obs":o1c}));
        self.stats.events += 4;
        let _ = track::take_anomalies();
    }

    /// one chained history on a fresh instance
    pub fn run_hist(&mut self, hist: &[Value]) {
        track::reset_tokens();
        track::drops_clear();
        self.perturb();
        let Some(mut c) = self.build() else { return };
        self.stats.tests += 1;
        let mut ids = AddrIds::new();
        self.jump(&c, &mut ids);
        for (i, op) in hist.iter().enumerate() {
            if !c.c_empty() {
                self.stats.nontrivial += 1;
            }
            // C16 on long histories: every 37th step (and the last one) is done on the cache AND on a fresh clone of it
            if self.fl.clone_ev && (i % 37 == 36 || i + 1 == hist.len()) {
                self.clone_pair(&mut c, op, &mut ids, true);
                continue;
            }
            let (ev, panicked) = self.call(&mut c, op);
            self.finish_event(ev, &c, &mut ids, true);
            if panicked {
                self.stats.panics += 1;
                std::mem::forget(c);
                return;
            }
        }
        self.end_test(c, &mut ids);
    }
    #[allow(dead_code)]
    fn _inst(_: Inst<K, S>) {}
}

/// observation without the per-run noise (addresses, tokens)
fn strip(o: &Value) -> Value {
    let mut o = o.clone();
    if let Some(m) = o.as_object_mut() {
        m.remove("audit");
        m.remove("tok");
    }
    o
}

/// extract the JSON payload of a TLC PrintT line `<<"TAG", "escaped json">>`
pub fn tlc_payload(line: &str, tag: &str) -> Option<Value> {
    let pat = format!("<<\"{tag}\", \"");
    let start = line.find(&pat)? + pat.len();
    let end = line.rfind("\">>")?;
    let js: String = serde_json::from_str(&format!("\"{}\"", &line[start..end])).ok()?;
    serde_json::from_str(&js).ok()
}

/// deterministic xorshift generator for random histories
pub struct Rng(pub u64);
impl Rng {
    pub fn next(&mut self) -> u64 {
        let mut x = self.0;
        x ^= x << 13;
        x ^= x >> 7;
        x ^= x << 17;
        self.0 = x;
        x.wrapping_mul(0x2545_F491_4F6C_DD1D)
    }
    pub fn below(&mut self, n: u64) -> u64 {
        self.next() % n.max(1)
    }
}

/// random history over the specification's alphabet; `ro` entries are skipped.  Every history draws one of four
/// workload profiles so that structured situations (a hot set over a cold stream, scans of fresh keys, phase
/// changes, a warm-up that fills every list) occur, not only uniform noise:
///   0 uniform   1 hot set (3 keys get 70% of the keyed operations)   2 scans (bursts of puts of consecutive keys)
///   3 two phases (first half on the lower half of the keys, second half on the upper half)
/// Independently, half of the histories use only a random SUBSET of the keys (2 .. all of them), so that caches that
/// never fill up, lists that stay short next to lists that are full, and nearly drained segments are visited as well.
pub fn random_hist(ops: &[Value], len: usize, rng: &mut Rng) -> Vec<Value> {
    let real: Vec<&Value> = ops.iter().filter(|o| o["op"] != "ro").collect();
    let puts: Vec<&Value> = real.iter().copied().filter(|o| o["op"].as_str().map_or(false, |s| s.contains("put"))).collect();
    let mut keys: Vec<u64> = real.iter().filter_map(|o| o.get("k").and_then(|k| k.as_u64())).collect();
    keys.sort();
    keys.dedup();
    let profile = rng.below(4);
    if rng.below(2) == 0 && keys.len() > 2 {
        let m = 2 + rng.below(keys.len() as u64 - 1) as usize;
        while keys.len() > m {
            let i = rng.below(keys.len() as u64) as usize;
            keys.swap_remove(i);
        }
        keys.sort();
    }
    let active = keys.clone();
    let hot: Vec<u64> = (0..3).map(|_| keys.get(rng.below(keys.len() as u64) as usize).copied().unwrap_or(0)).collect();
    let key_ok = |o: &Value, want: &dyn Fn(u64) -> bool| o.get("k").and_then(|k| k.as_u64()).map_or(true, want);
    let mut h = vec![];
    let mut scan_left = 0usize;
    let mut scan_next = 0usize;
    while h.len() < len {
        // a scan in progress: put the next key of the universe
        if scan_left > 0 && !keys.is_empty() && !puts.is_empty() {
            let k = keys[scan_next % keys.len()];
            scan_next += 1;
            scan_left -= 1;
            if let Some(o) = puts.iter().find(|o| o["op"] == "put" && o["k"].as_u64() == Some(k)) {
                h.push((*o).clone());
                continue;
            }
        }
        if profile == 2 && rng.below(100) < 6 {
            scan_left = 2 + rng.below(keys.len() as u64 + 2) as usize;
            scan_next = rng.below(keys.len().max(1) as u64) as usize;
            continue;
        }
        let pool: &Vec<&Value> = if !puts.is_empty() && rng.below(100) < 45 { &puts } else { &real };
        let mut pick = pool[rng.below(pool.len() as u64) as usize];
        // bias the key of keyed operations according to the profile (a few retries, then take what came)
        for _ in 0..12 {
            if !key_ok(pick, &|k| active.binary_search(&k).is_ok()) {
                pick = pool[rng.below(pool.len() as u64) as usize];
                continue;
            }
            let ok = match profile {
                1 => rng.below(100) >= 70 || key_ok(pick, &|k| hot.contains(&k)),
                3 => {
                    let lower = h.len() < len / 2;
                    let mid = keys.get(keys.len() / 2).copied().unwrap_or(0);
                    rng.below(100) < 10 || key_ok(pick, &|k| (k < mid) == lower)
                }
                _ => true,
            };
            if ok {
                break;
            }
            pick = pool[rng.below(pool.len() as u64) as usize];
        }
        // purge / resize(0) rarely
        if (pick["op"] == "purge" || (pick["op"] == "resize" && pick["n"] == 0)) && rng.below(100) < 85 {
            continue;
        }
        h.push(pick.clone());
    }
    // how the history ends: half of them with a bulk operation on the state they built up (purge, or a resize where the
    // type has one), so that bulk paths meet long lists and not only the nearly empty caches purge leaves behind mid-way
    match rng.below(4) {
        0 => {
            if let Some(o) = real.iter().find(|o| o["op"] == "purge") {
                h.push((*o).clone());
            }
        }
        1 => {
            let rs: Vec<&&Value> = real.iter().filter(|o| o["op"] == "resize").collect();
            if !rs.is_empty() {
                h.push((**rs[rng.below(rs.len() as u64) as usize]).clone());
            } else if let Some(o) = real.iter().find(|o| o["op"] == "purge") {
                h.push((*o).clone());
            }
        }
        _ => {}
    }
    h
}

pub fn run_driver<K: KeyT, S: Sut<K>>(
    cfg: Value,
    env: Env,
    nkeys: u64,
    fl: Flags,
    random: Option<(usize, usize, u64)>,
    max_states: Option<u64>,
    skip: (u64, u64),
    dump_hists: Option<String>,
    input: &mut dyn BufRead,
    out: &mut ShardWriter,
) -> Stats {
    let mut r: Runner<K, S> = Runner::new(cfg, env, nkeys, fl, out);
    let mut ops: Vec<Value> = vec![];
    let mut line = String::new();
    let mut nstate = 0u64;
    loop {
        line.clear();
        if input.read_line(&mut line).unwrap() == 0 {
            break;
        }
        let l = line.trim_end();
        if let Some(v) = tlc_payload(l, "OPS") {
            ops = v["ops"].as_array().cloned().unwrap_or_default();
            // deterministic order
            ops.sort_by_key(|o| o.to_string());
        } else if let Some(v) = tlc_payload(l, "STATE") {
            nstate += 1;
            // every `skip.1`-th state starting at offset `skip.0` (sharding of slow runs)
            if skip.1 > 1 && nstate % skip.1 != skip.0 % skip.1 {
                continue;
            }
            if let Some(m) = max_states {
                if r.stats.states >= m {
                    continue;
                }
            }
            let path = v["path"].as_array().cloned().unwrap_or_default();
            r.sid += 1;
            if r.fl.faults {
                r.run_fault_state(&path, &ops, 24);
            } else {
                r.run_state(&path, &ops);
            }
        } else if l.starts_with('{') {
            if let Ok(v) = serde_json::from_str::<Value>(l) {
                if let Some(h) = v.get("hist").and_then(|h| h.as_array()) {
                    r.sid += 1;
                    r.run_hist(h);
                } else if let Some(o) = v.get("ops").and_then(|h| h.as_array()) {
                    ops = o.clone();
                } else if let Some(p) = v.get("state").and_then(|h| h.as_array()) {
                    r.sid += 1;
                    r.run_state(p, &ops);
                }
            }
        }
    }
    if let Some((n, len, seed)) = random {
        let mut rng = Rng(seed.wrapping_mul(0x9E37_79B9_7F4A_7C15) | 1);
        for _ in 0..n {
            let h = random_hist(&ops, len, &mut rng);
            r.sid += 1;
            if let Some(p) = &dump_hists {
                use std::io::Write as _;
                let mut f = std::fs::OpenOptions::new().create(true).append(true).open(p).unwrap();
                writeln!(f, "{}", json!({"sid": r.sid, "hist": h})).unwrap();
            }
            if r.fl.faults {
                // C18 on a LARGE state: the history is the path; panics are injected into one operation of every name
                // (with a random key), at the first three user-code calls of every kind; a few keys are probed afterwards
                let mut names: Vec<String> = ops.iter().filter_map(|o| o["op"].as_str().map(|s| s.to_string())).filter(|s| s != "ro").collect();
                names.sort();
                names.dedup();
                let mut chosen: Vec<Value> = vec![];
                for nm in &names {
                    let cands: Vec<&Value> = ops.iter().filter(|o| o["op"] == nm.as_str()).collect();
                    chosen.push(cands[rng.below(cands.len() as u64) as usize].clone());
                    if nm.contains("put") || nm == "get" || nm == "remove" {
                        chosen.push(cands[rng.below(cands.len() as u64) as usize].clone());
                    }
                }
                // (a bulk ending would leave an empty cache behind: the large state is the point here)
                let mut path = h.clone();
                while path.last().map_or(false, |o| o["op"] == "purge" || o["op"] == "resize") {
                    path.pop();
                }
                r.run_fault_state_lim(&path, &chosen, 3, 6);
            } else {
                r.run_hist(&h);
            }
        }
    }
    r.out.finish();
    r.stats
}
