//! TinyLFU and SampledLFU under test (C11, C20): same driver format as the caches
//! (TLC STATE/OPS lines, chained histories, seeded random histories), simpler observation.
use crate::exec::{random_hist, tlc_payload, Rng, ShardWriter};
use crate::hashers::TabKH;
use crate::sut::{digest, s, u};
use caches::lfu::{SampledLFU, TinyLFU};
use serde_json::{json, Value};
use std::io::BufRead;
use std::panic::{catch_unwind, AssertUnwindSafe};
use std::rc::Rc;

pub trait Simple: Sized {
    fn build(cfg: &Value, table: &Rc<Vec<u64>>) -> Result<Self, String>;
    /// returns the event record fields (at least "ret")
    fn apply(&mut self, op: &Value, ev: &mut Value);
    fn obs(&mut self, uni: &[u64]) -> Value;
    fn try_clone(&self) -> Option<Self> {
        None
    }
}

fn i(op: &Value, f: &str) -> i64 {
    op.get(f).and_then(|v| v.as_i64()).unwrap_or(0)
}

// ------------------------------------------------------------------ TinyLFU
/// Only `TinyLFU::new` (DefaultKeyHasher, randomly seeded per instance) is constructible from
/// outside the crate.  The key universe 1..n is therefore split: keys 1..=keyed are recorded and
/// queried BY KEY (hash chosen by the library), keys keyed+1..=n BY RAW HASH (hash chosen by the
/// driver's table, including 0 and u64::MAX).
pub struct Tl {
    t: TinyLFU<u64>,
    kh: TabKH,
    keyed: u64,
}
impl Tl {
    fn hash_of(&self, k: u64) -> u64 {
        if k <= self.keyed {
            self.t.hash_key(&k)
        } else {
            self.kh.hash_of_id(k)
        }
    }
}
impl Simple for Tl {
    fn build(cfg: &Value, table: &Rc<Vec<u64>>) -> Result<Self, String> {
        let kh = TabKH { table: table.clone() };
        let fp = cfg.get("fp").and_then(|v| v.as_f64()).unwrap_or(0.01);
        let t = TinyLFU::<u64>::new(u(cfg, "size") as usize, u(cfg, "samples") as usize, fp).map_err(|e| format!("{e:?}"))?;
        Ok(Tl { t, kh, keyed: u(cfg, "keyed") })
    }
    fn apply(&mut self, op: &Value, ev: &mut Value) {
        let k = u(op, "k");
        match s(op, "op") {
            "increment" | "increment_hashed" => {
                if k <= self.keyed && s(op, "op") == "increment" {
                    self.t.increment(&k)
                } else {
                    let h = self.hash_of(k);
                    self.t.increment_hashed_key(h)
                }
            }
            "increment_keys" => {
                let ks: Vec<u64> = op["ks"].as_array().map(|a| a.iter().filter_map(|x| x.as_u64()).collect()).unwrap_or_default();
                if ks.iter().all(|&k| k <= self.keyed) {
                    let refs: Vec<&u64> = ks.iter().collect();
                    self.t.increment_keys(&refs)
                } else {
                    let hs: Vec<u64> = ks.iter().map(|&k| self.hash_of(k)).collect();
                    self.t.increment_hashed_keys(&hs)
                }
            }
            "try_reset" => self.t.try_reset(),
            "clear" => self.t.clear(),
            "ro" | "estimate" | "contains" | "cmp" => {}
            o => panic!("harness: unknown tinylfu op {o}"),
        }
        ev["ret"] = json!({"t":"Unit"});
    }
    fn obs(&mut self, uni: &[u64]) -> Value {
        let t = &self.t;
        let est: Vec<u64> = uni.iter().map(|&k| if k <= self.keyed { t.estimate(&k) } else { t.estimate_hashed_key(self.hash_of(k)) }).collect();
        let esth: Vec<u64> = uni.iter().map(|&k| t.estimate_hashed_key(self.hash_of(k))).collect();
        let dk: Vec<bool> = uni.iter().map(|&k| if k <= self.keyed { t.contains(&k) } else { t.contains_hash(self.hash_of(k)) }).collect();
        let dkh: Vec<bool> = uni.iter().map(|&k| t.contains_hash(self.hash_of(k))).collect();
        let cmp: Vec<Vec<u64>> = uni
            .iter()
            .filter(|&&a| a <= self.keyed)
            .map(|a| {
                uni.iter()
                    .filter(|&&b| b <= self.keyed)
                    .map(|b| {
                        (t.lt(a, b) as u64) | (t.le(a, b) as u64) << 1 | (t.gt(a, b) as u64) << 2 | (t.ge(a, b) as u64) << 3 | (t.eq(a, b) as u64) << 4
                    })
                    .collect()
            })
            .collect();
        let (w, samples) = t.verif_w();
        let (rows, words) = t.verif_state();
        json!({"est": est, "esth": esth, "dk": dk, "dkh": dkh, "cmp": cmp, "w": w, "samples": samples, "sketch": digest(&rows, &words)})
    }
    fn try_clone(&self) -> Option<Self> {
        Some(Tl { t: self.t.clone(), kh: self.kh.clone(), keyed: self.keyed })
    }
}

// ------------------------------------------------------------------ SampledLFU
pub struct Sl {
    main: SampledLFU<u64, TabKH>,
    /// same history on a tracker whose sample size covers every key: full view of the tracked map
    twin: SampledLFU<u64, TabKH>,
    kh: TabKH,
    samples: usize,
}
impl Sl {
    fn key_of_hash(&self, h: u64, uni: &[u64]) -> i64 {
        for &k in uni {
            if self.kh.hash_of_id(k) == h {
                return k as i64;
            }
        }
        -1
    }
}
impl Simple for Sl {
    fn build(cfg: &Value, table: &Rc<Vec<u64>>) -> Result<Self, String> {
        let kh = TabKH { table: table.clone() };
        let samples = u(cfg, "samples") as usize;
        let max = i(cfg, "max");
        Ok(Sl {
            main: SampledLFU::with_samples_and_key_hasher(max, samples, kh.clone()),
            twin: SampledLFU::with_samples_and_key_hasher(max, 1 << 20, kh.clone()),
            kh,
            samples,
        })
    }
    fn apply(&mut self, op: &Value, ev: &mut Value) {
        let k = u(op, "k");
        let c = i(op, "c");
        let h = self.kh.hash_of_id(k);
        let opt = |o: Option<i64>| match o {
            Some(n) => json!({"t":"SomeInt","n":n}),
            None => json!({"t":"None"}),
        };
        ev["ret"] = match s(op, "op") {
            "increment" => {
                self.twin.increment(&k, c);
                self.main.increment(&k, c);
                json!({"t":"Unit"})
            }
            "increment_hashed" => {
                self.twin.increment_hashed_key(h, c);
                self.main.increment_hashed_key(h, c);
                json!({"t":"Unit"})
            }
            "update" => {
                self.twin.update(&k, c);
                json!({"t":"Bool","b": self.main.update(&k, c)})
            }
            "update_hashed" => {
                self.twin.update_hashed_key(h, c);
                json!({"t":"Bool","b": self.main.update_hashed_key(h, c)})
            }
            "remove" => {
                self.twin.remove(&k);
                opt(self.main.remove(&k))
            }
            "remove_hashed" => {
                self.twin.remove_hashed_key(h);
                opt(self.main.remove_hashed_key(h))
            }
            "clear" => {
                self.twin.clear();
                self.main.clear();
                json!({"t":"Unit"})
            }
            "update_max_cost" => {
                self.twin.update_max_cost(c);
                self.main.update_max_cost(c);
                json!({"t":"Unit"})
            }
            "room_left" => json!({"t":"Int","n": self.main.room_left(c)}),
            "get_max_cost" => json!({"t":"Int","n": self.main.get_max_cost()}),
            "ro" => json!({"t":"Unit"}),
            "fill_sample" => {
                let uni: Vec<u64> = (1..=64).collect();
                let inp: Vec<(u64, i64)> = op["inp"]
                    .as_array()
                    .map(|a| a.iter().map(|p| (self.kh.hash_of_id(p[0].as_u64().unwrap_or(0)), p[1].as_i64().unwrap_or(0))).collect())
                    .unwrap_or_default();
                let out = self.main.fill_sample(inp);
                let outj: Vec<Value> = out.iter().map(|(h, c)| json!([self.key_of_hash(*h, &uni), c])).collect();
                ev["out"] = json!(outj);
                ev["samples"] = json!(self.samples);
                json!({"t":"Unit"})
            }
            o => panic!("harness: unknown sampledlfu op {o}"),
        };
    }
    fn obs(&mut self, uni: &[u64]) -> Value {
        let all = self.twin.fill_sample(vec![]);
        let mut allj: Vec<(i64, i64)> = all.iter().map(|(h, c)| (self.key_of_hash(*h, uni), *c)).collect();
        allj.sort();
        json!({"room": self.main.room_left(0), "max": self.main.get_max_cost(), "samples": self.samples,
               "all": allj.iter().map(|(k, c)| json!([k, c])).collect::<Vec<_>>()})
    }
}

// ------------------------------------------------------------------ runner
pub struct SimpleRun<'a> {
    pub cfg: Value,
    pub table: Rc<Vec<u64>>,
    pub uni: Vec<u64>,
    pub out: &'a mut ShardWriter,
    pub clone_ev: bool,
    pub sid: u64,
    pub events: u64,
    pub tests: u64,
    pub panics: u64,
    pub nontrivial: u64,
    pub by_kind: std::collections::BTreeMap<String, u64>,
}

impl<'a> SimpleRun<'a> {
    fn build<S: Simple>(&self) -> Option<S> {
        match catch_unwind(AssertUnwindSafe(|| S::build(&self.cfg, &self.table))) {
            Ok(Ok(c)) => Some(c),
            _ => None,
        }
    }
    fn replay<S: Simple>(&self, path: &[Value]) -> Option<S> {
        let mut c: S = self.build()?;
        let ok = catch_unwind(AssertUnwindSafe(|| {
            for op in path {
                let mut ev = op.clone();
                c.apply(op, &mut ev);
            }
        }))
        .is_ok();
        if ok {
            Some(c)
        } else {
            None
        }
    }
    fn event<S: Simple>(&mut self, c: &mut S, op: &Value, chain: bool) -> bool {
        let mut ev = op.clone();
        let r = catch_unwind(AssertUnwindSafe(|| c.apply(op, &mut ev)));
        let panicked = r.is_err();
        if panicked {
            ev["ret"] = json!({"t":"Panic"});
            self.panics += 1;
        }
        ev["panic"] = json!(panicked);
        ev["chain"] = json!(chain);
        ev["obs"] = catch_unwind(AssertUnwindSafe(|| c.obs(&self.uni))).unwrap_or_else(|_| json!({}));
        let key = format!("{}:{}", s(op, "op"), ev["ret"]["t"].as_str().unwrap_or("?"));
        *self.by_kind.entry(key).or_insert(0) += 1;
        self.events += 1;
        self.out.line(&ev);
        panicked
    }
    /// announce the state; if the observation itself panics, log that as a panicking `observe` event
    fn jump<S: Simple>(&mut self, c: &mut S, fresh: bool) -> Option<Value> {
        self.out.boundary();
        match catch_unwind(AssertUnwindSafe(|| c.obs(&self.uni))) {
            Ok(obs) => {
                self.out.line(&json!({"op":"jump","obs":obs,"sid":self.sid,"fresh":fresh}));
                Some(obs)
            }
            Err(_) => {
                self.out.line(&json!({"op":"jump","obs":{},"sid":self.sid,"fresh":fresh,"broken":true}));
                self.out.line(&json!({"op":"observe","panic":true,"chain":false,"obs":{},"ret":{"t":"Panic"}}));
                self.panics += 1;
                self.events += 1;
                None
            }
        }
    }
    pub fn run_state<S: Simple>(&mut self, path: &[Value], ops: &[Value]) {
        let mut base: Option<Value> = None;
        for op in ops {
            let Some(mut c) = self.replay::<S>(path) else { return };
            self.tests += 1;
            if !path.is_empty() {
                self.nontrivial += 1;
            }
            let pre = catch_unwind(AssertUnwindSafe(|| c.obs(&self.uni))).ok();
            if pre.is_none() || base != pre {
                base = self.jump(&mut c, false);
                if base.is_none() {
                    return;
                }
            }
            if self.clone_ev {
                self.clone_pair(&mut c, op);
                continue;
            }
            self.event(&mut c, op, false);
        }
    }
    fn clone_pair<S: Simple>(&mut self, c: &mut S, op: &Value) {
        let Some(mut d) = c.try_clone() else { return };
        let (o1, o2) = (c.obs(&self.uni), d.obs(&self.uni));
        self.out.line(&json!({"op":"clone","panic":false,"chain":false,"obs":o1,"obs2":o2}));
        let (mut e1, mut e2) = (op.clone(), op.clone());
        c.apply(op, &mut e1);
        d.apply(op, &mut e2);
        let (o1, o2) = (c.obs(&self.uni), d.obs(&self.uni));
        self.out.line(&json!({"op":"both","op2":op["op"],"panic":false,"chain":true,"obs":o1,"obs2":o2}));
        d.apply(op, &mut e2);
        let o1 = c.obs(&self.uni);
        self.out.line(&json!({"op":"clone_only","panic":false,"chain":true,"obs":o1}));
        drop(d);
        let o1 = c.obs(&self.uni);
        self.out.line(&json!({"op":"clone_dropped","panic":false,"chain":true,"obs":o1}));
        self.events += 4;
    }
    pub fn run_hist<S: Simple>(&mut self, hist: &[Value]) {
        let Some(mut c) = self.build::<S>() else { return };
        self.tests += 1;
        if self.jump(&mut c, true).is_none() {
            return;
        }
        for (n, op) in hist.iter().enumerate() {
            if n > 0 {
                self.nontrivial += 1;
            }
            if self.event(&mut c, op, true) {
                return;
            }
        }
    }
}

pub fn run<S: Simple>(a: &crate::Args) -> Value {
    let cfg: Value = serde_json::from_str(a.get("cfg").expect("--cfg")).expect("cfg json");
    let nkeys = a.num("keys", 3);
    let table: Vec<u64> = match a.get("khtable") {
        Some(t) => serde_json::from_str(t).expect("khtable"),
        None => crate::default_kh_table(nkeys, u(&cfg, "size").max(4)),
    };
    let mut out = ShardWriter::new(a.get("out").map(|x| x.to_string()), a.num("shard", 0));
    let input: Box<dyn std::io::Read> = match a.get("in") {
        Some(p) => Box::new(std::fs::File::open(p).expect("open --in")),
        None => Box::new(std::io::stdin()),
    };
    let mut input = std::io::BufReader::with_capacity(1 << 20, input);
    let mut r = SimpleRun {
        cfg,
        table: Rc::new(table),
        uni: (1..=nkeys).collect(),
        out: &mut out,
        clone_ev: a.has("clone"),
        sid: 0,
        events: 0,
        tests: 0,
        panics: 0,
        nontrivial: 0,
        by_kind: Default::default(),
    };
    let max_states = a.get("max-states").and_then(|x| x.parse::<u64>().ok());
    let mut ops: Vec<Value> = vec![];
    let mut line = String::new();
    let mut states = 0u64;
    loop {
        line.clear();
        if input.read_line(&mut line).unwrap() == 0 {
            break;
        }
        let l = line.trim_end();
        if let Some(v) = tlc_payload(l, "OPS") {
            ops = v["ops"].as_array().cloned().unwrap_or_default();
            ops.sort_by_key(|o| o.to_string());
        } else if let Some(v) = tlc_payload(l, "STATE") {
            if max_states.map_or(false, |m| states >= m) {
                continue;
            }
            states += 1;
            r.sid += 1;
            let path = v["path"].as_array().cloned().unwrap_or_default();
            r.run_state::<S>(&path, &ops);
        } else if l.starts_with('{') {
            if let Ok(v) = serde_json::from_str::<Value>(l) {
                if let Some(h) = v.get("hist").and_then(|h| h.as_array()) {
                    r.sid += 1;
                    r.run_hist::<S>(h);
                } else if let Some(o) = v.get("ops").and_then(|h| h.as_array()) {
                    ops = o.clone();
                } else if let Some(p) = v.get("state").and_then(|h| h.as_array()) {
                    r.sid += 1;
                    r.run_state::<S>(p, &ops);
                }
            }
        }
    }
    if let Some(spec) = a.get("random") {
        let p: Vec<u64> = spec.split(',').map(|x| x.parse().unwrap()).collect();
        let mut rng = Rng(p[2].wrapping_mul(0x9E37_79B9_7F4A_7C15) | 1);
        let extra: Vec<Value> = a.get("extra-ops").map(|e| serde_json::from_str(e).expect("extra-ops")).unwrap_or_default();
        let mut alphabet = ops.clone();
        alphabet.extend(extra);
        for _ in 0..p[0] {
            let h = random_hist(&alphabet, p[1] as usize, &mut rng);
            r.sid += 1;
            if let Some(f) = a.get("dump-hists") {
                use std::io::Write as _;
                let mut f = std::fs::OpenOptions::new().create(true).append(true).open(f).unwrap();
                writeln!(f, "{}", json!({"sid": r.sid, "hist": h})).unwrap();
            }
            r.run_hist::<S>(&h);
        }
    }
    let st = json!({"states": states, "tests": r.tests, "events": r.events, "panics": r.panics, "nontrivial": r.nontrivial, "by_kind": r.by_kind});
    out.finish();
    st
}
