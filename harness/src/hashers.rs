//! Runtime-selectable BuildHasher, table-driven KeyHasher and the logging eviction callback.
use crate::track::{self, tick, TK, TV};
use caches::lfu::KeyHasher;
use caches::OnEvictCallback;
use std::borrow::Borrow;
use std::cell::Cell;
use std::collections::hash_map::{DefaultHasher, RandomState};
use std::hash::{BuildHasher, Hash, Hasher};
use std::rc::Rc;

thread_local! {
    /// hasher kind used by `DynBH::default()` (builders that call `Default`)
    pub static DEFAULT_KIND: Cell<u8> = const { Cell::new(0) };
}
pub const HASHER_KINDS: [&str; 5] = ["std", "std2", "ident", "zero", "fnv"];

#[derive(Clone)]
pub enum DynBH {
    Std(RandomState),
    Ident,
    Zero,
    Fnv(u64),
}
impl DynBH {
    pub fn of(kind: &str) -> Self {
        match kind {
            "std" | "std2" => DynBH::Std(RandomState::new()),
            "ident" => DynBH::Ident,
            "zero" => DynBH::Zero,
            "fnv" => DynBH::Fnv(0xcbf2_9ce4_8422_2325),
            o => panic!("unknown hasher kind {o}"),
        }
    }
}
impl Default for DynBH {
    fn default() -> Self {
        DynBH::of(HASHER_KINDS[DEFAULT_KIND.with(|c| c.get()) as usize])
    }
}
pub enum DynH {
    Std(DefaultHasher),
    Ident(u64),
    Zero,
    Fnv(u64),
}
impl BuildHasher for DynBH {
    type Hasher = DynH;
    fn build_hasher(&self) -> DynH {
        tick(track::K_HASHER);
        match self {
            DynBH::Std(s) => DynH::Std(s.build_hasher()),
            DynBH::Ident => DynH::Ident(0),
            DynBH::Zero => DynH::Zero,
            DynBH::Fnv(s) => DynH::Fnv(*s),
        }
    }
}
impl Hasher for DynH {
    fn finish(&self) -> u64 {
        match self {
            DynH::Std(h) => h.finish(),
            DynH::Ident(v) => *v,
            DynH::Zero => 0,
            DynH::Fnv(v) => *v,
        }
    }
    fn write(&mut self, bytes: &[u8]) {
        match self {
            DynH::Std(h) => h.write(bytes),
            DynH::Ident(v) => {
                for &b in bytes {
                    *v = v.rotate_left(8) ^ b as u64;
                }
            }
            DynH::Zero => {}
            DynH::Fnv(v) => {
                for &b in bytes {
                    *v = (*v ^ b as u64).wrapping_mul(0x0100_0000_01b3);
                }
            }
        }
    }
    fn write_u64(&mut self, x: u64) {
        match self {
            DynH::Ident(v) => *v = x,
            _ => self.write(&x.to_le_bytes()),
        }
    }
}

/// captures the model id of a key from its Hash impl (tracked keys write the id with
/// write_u64; String keys write "key-<id>" bytes)
struct IdCapture {
    id: u64,
    digits: bool,
}
impl Hasher for IdCapture {
    fn finish(&self) -> u64 {
        self.id
    }
    fn write(&mut self, bytes: &[u8]) {
        for &b in bytes {
            if b.is_ascii_digit() {
                if !self.digits {
                    self.id = 0;
                    self.digits = true;
                }
                self.id = self.id.wrapping_mul(10).wrapping_add((b - b'0') as u64);
            }
        }
    }
    fn write_u64(&mut self, v: u64) {
        self.id = v;
    }
}

/// KeyHasher whose hash values for the model keys are chosen by the driver
#[derive(Clone, Default)]
pub struct TabKH {
    pub table: Rc<Vec<u64>>,
}
impl TabKH {
    pub fn hash_of_id(&self, id: u64) -> u64 {
        match self.table.get(id as usize) {
            Some(h) => *h,
            None => id.wrapping_mul(0x9E37_79B9_7F4A_7C15),
        }
    }
}
impl<K: Hash + Eq> KeyHasher<K> for TabKH {
    fn hash_key<Q>(&self, key: &Q) -> u64
    where
        K: Borrow<Q>,
        Q: Hash + Eq + ?Sized,
    {
        tick(track::K_KEYHASHER);
        let mut c = IdCapture { id: 0, digits: false };
        key.hash(&mut c);
        self.hash_of_id(c.id)
    }
}

/// eviction callback that logs (key id, value, key token, value token)
#[derive(Clone, Default)]
pub struct LogCb;
impl OnEvictCallback for LogCb {
    fn on_evict<K, V>(&self, key: &K, val: &V) {
        tick(track::K_CB);
        let kn = std::any::type_name::<K>();
        let vn = std::any::type_name::<V>();
        let (v, vt) = if vn == std::any::type_name::<TV>() {
            let v = unsafe { &*(val as *const V as *const TV) };
            (v.read(), v.tok)
        } else {
            (u64::MAX, 0)
        };
        let (k, kt) = if kn == std::any::type_name::<TK>() {
            let k = unsafe { &*(key as *const K as *const TK) };
            if k.magic != track::MAGIC {
                track::anomaly(format!("callback-on-dead-key magic={:#x}", k.magic));
            }
            (k.id.0, k.tok)
        } else if kn == std::any::type_name::<String>() {
            let k = unsafe { &*(key as *const K as *const String) };
            (<String as track::KeyT>::id(k), 0)
        } else {
            (u64::MAX, 0)
        };
        track::log_cb((k, v, kt, vt));
    }
}
