//! Drop-tracked keys and values, the fuse (panic injection into user code) and the
//! thread-local logs the harness turns into observations.
use std::borrow::Borrow;
use std::cell::{Cell, RefCell};
use std::hash::{Hash, Hasher};

pub const MAGIC: u64 = 0xA11C_E0DD_5EED_F00D;
pub const DEAD: u64 = 0xDEAD_DEAD_DEAD_DEAD;

thread_local! {
    static NEXT_TOKEN: Cell<u64> = const { Cell::new(1) };
    pub static DROPS: RefCell<Vec<u64>> = const { RefCell::new(Vec::new()) };
    pub static ANOMALIES: RefCell<Vec<String>> = const { RefCell::new(Vec::new()) };
    pub static CB_LOG: RefCell<Vec<(u64, u64, u64, u64)>> = const { RefCell::new(Vec::new()) };
    // fuse: number of user-code calls seen since `arm`, per kind and total
    static FUSE_ARMED: Cell<bool> = const { Cell::new(false) };
    static FUSE_KIND: Cell<u8> = const { Cell::new(0) };   // 0 = any
    static FUSE_AT: Cell<u64> = const { Cell::new(0) };
    static FUSE_COUNT: Cell<u64> = const { Cell::new(0) };
    static FUSE_COUNTS: RefCell<[u64; 8]> = const { RefCell::new([0; 8]) };
    static FUSE_COUNTING: Cell<bool> = const { Cell::new(false) };
    static FUSE_FIRED: Cell<bool> = const { Cell::new(false) };
}

pub const K_HASH: u8 = 1;
pub const K_EQ: u8 = 2;
pub const K_CLONE: u8 = 3;
pub const K_DROP: u8 = 4;
pub const K_HASHER: u8 = 5;
pub const K_CB: u8 = 6;
pub const K_KEYHASHER: u8 = 7;
pub const KIND_NAMES: [&str; 8] = ["any", "hash", "eq", "clone", "drop", "hasher", "cb", "keyhasher"];

/// restart token numbering (start of every test, so that replays of one path are identical)
pub fn reset_tokens() {
    NEXT_TOKEN.with(|c| c.set(1));
}
pub fn mint() -> u64 {
    NEXT_TOKEN.with(|c| {
        let v = c.get();
        c.set(v + 1);
        v
    })
}

/// start counting user-code calls (dry run or armed run)
pub fn fuse_begin(armed: bool, kind: u8, at: u64) {
    FUSE_COUNTING.with(|c| c.set(true));
    FUSE_ARMED.with(|c| c.set(armed));
    FUSE_KIND.with(|c| c.set(kind));
    FUSE_AT.with(|c| c.set(at));
    FUSE_COUNT.with(|c| c.set(0));
    FUSE_COUNTS.with(|c| *c.borrow_mut() = [0; 8]);
    FUSE_FIRED.with(|c| c.set(false));
}
/// the armed call returned (or unwound): no further injection, e.g. while the harness drops results
pub fn fuse_disarm() {
    FUSE_ARMED.with(|c| c.set(false));
}
/// stop counting; returns (per-kind counts, fired)
pub fn fuse_end() -> ([u64; 8], bool) {
    FUSE_COUNTING.with(|c| c.set(false));
    FUSE_ARMED.with(|c| c.set(false));
    let counts = FUSE_COUNTS.with(|c| *c.borrow());
    (counts, FUSE_FIRED.with(|c| c.get()))
}

#[inline]
pub fn tick(kind: u8) {
    if !FUSE_COUNTING.with(|c| c.get()) {
        return;
    }
    FUSE_COUNTS.with(|c| {
        let mut c = c.borrow_mut();
        c[kind as usize] += 1;
        c[0] += 1;
    });
    if !FUSE_ARMED.with(|c| c.get()) {
        return;
    }
    let want = FUSE_KIND.with(|c| c.get());
    if want != 0 && want != kind {
        return;
    }
    let n = FUSE_COUNT.with(|c| {
        let v = c.get() + 1;
        c.set(v);
        v
    });
    if n == FUSE_AT.with(|c| c.get()) {
        if kind == K_DROP && std::thread::panicking() {
            // a panic inside Drop while already unwinding aborts the process: that is a property
            // of Rust, not of the library; skip this injection point.
            return;
        }
        FUSE_ARMED.with(|c| c.set(false));
        FUSE_FIRED.with(|c| c.set(true));
        panic!("fuse:{}", KIND_NAMES[kind as usize]);
    }
}

pub fn anomaly(s: String) {
    crate::qalloc::untracked(|| ANOMALIES.with(|a| a.borrow_mut().push(s)));
}
fn log_drop(tok: u64) {
    crate::qalloc::untracked(|| DROPS.with(|d| d.borrow_mut().push(tok)));
}
pub fn log_cb(e: (u64, u64, u64, u64)) {
    crate::qalloc::untracked(|| CB_LOG.with(|c| c.borrow_mut().push(e)));
}
pub fn take_anomalies() -> Vec<String> {
    ANOMALIES.with(|a| std::mem::take(&mut *a.borrow_mut()))
}
pub fn drops_len() -> usize {
    DROPS.with(|d| d.borrow().len())
}
pub fn drops_since(n: usize) -> Vec<u64> {
    DROPS.with(|d| d.borrow()[n..].to_vec())
}
pub fn drops_clear() {
    DROPS.with(|d| d.borrow_mut().clear());
}
pub fn cb_take() -> Vec<(u64, u64, u64, u64)> {
    CB_LOG.with(|c| std::mem::take(&mut *c.borrow_mut()))
}

fn on_drop(what: &str, tok: u64, magic: &mut u64) {
    if *magic == MAGIC {
        *magic = DEAD;
        log_drop(tok);
    } else if *magic == DEAD {
        anomaly(format!("double-drop {what} tok={tok}"));
        log_drop(tok);
    } else {
        anomaly(format!("drop-of-garbage {what} magic={:#x}", *magic));
    }
}

/// borrowed form of a tracked key: what lookups pass by reference
#[repr(transparent)]
#[derive(Debug)]
pub struct QK(pub u64);
impl Hash for QK {
    fn hash<H: Hasher>(&self, state: &mut H) {
        tick(K_HASH);
        state.write_u64(self.0);
    }
}
impl PartialEq for QK {
    fn eq(&self, o: &Self) -> bool {
        tick(K_EQ);
        self.0 == o.0
    }
}
impl Eq for QK {}

/// tracked key: `id` is what Hash/Eq see, `tok` identifies the object
#[derive(Debug)]
pub struct TK {
    pub id: QK,
    pub tok: u64,
    pub magic: u64,
}
impl TK {
    pub fn new(id: u64) -> Self {
        TK { id: QK(id), tok: mint(), magic: MAGIC }
    }
}
impl Hash for TK {
    fn hash<H: Hasher>(&self, state: &mut H) {
        if self.magic != MAGIC {
            anomaly(format!("hash-of-dead-key magic={:#x}", self.magic));
        }
        self.id.hash(state)
    }
}
impl PartialEq for TK {
    fn eq(&self, o: &Self) -> bool {
        if self.magic != MAGIC || o.magic != MAGIC {
            anomaly(format!("eq-of-dead-key magic={:#x}/{:#x}", self.magic, o.magic));
        }
        self.id == o.id
    }
}
impl Eq for TK {}
impl Borrow<QK> for TK {
    fn borrow(&self) -> &QK {
        &self.id
    }
}
impl Clone for TK {
    fn clone(&self) -> Self {
        tick(K_CLONE);
        if self.magic != MAGIC {
            anomaly(format!("clone-of-dead-key magic={:#x}", self.magic));
        }
        TK { id: QK(self.id.0), tok: mint(), magic: MAGIC }
    }
}
impl Drop for TK {
    fn drop(&mut self) {
        // the object is dead as soon as its destructor has been entered: a destructor that panics must not be run a
        // second time, so the drop is recorded BEFORE the injected panic
        on_drop("key", self.tok, &mut self.magic);
        tick(K_DROP);
    }
}

/// tracked value
#[derive(Debug)]
pub struct TV {
    pub val: u64,
    pub tok: u64,
    pub magic: u64,
}
impl TV {
    pub fn new(val: u64) -> Self {
        TV { val, tok: mint(), magic: MAGIC }
    }
    /// read the payload, reporting reads of dead/poisoned objects
    pub fn read(&self) -> u64 {
        if self.magic != MAGIC {
            anomaly(format!("read-of-dead-value magic={:#x}", self.magic));
        }
        self.val
    }
}
impl Clone for TV {
    fn clone(&self) -> Self {
        tick(K_CLONE);
        if self.magic != MAGIC {
            anomaly(format!("clone-of-dead-value magic={:#x}", self.magic));
        }
        TV { val: self.val, tok: mint(), magic: MAGIC }
    }
}
impl PartialEq for TV {
    fn eq(&self, o: &Self) -> bool {
        self.val == o.val
    }
}
impl Drop for TV {
    fn drop(&mut self) {
        on_drop("value", self.tok, &mut self.magic);
        tick(K_DROP);
    }
}

/// The key abstraction the harness is generic over.
pub trait KeyT: Hash + Eq + Clone + Borrow<<Self as KeyT>::Q> + 'static {
    type Q: Hash + Eq + ?Sized;
    const NAME: &'static str;
    fn mk(id: u64) -> Self;
    fn id(&self) -> u64;
    /// 0 = untracked
    fn tok(&self) -> u64;
    fn alive(&self) -> bool;
    fn with_q<R>(id: u64, f: impl FnOnce(&Self::Q) -> R) -> R;
}
impl KeyT for TK {
    type Q = QK;
    const NAME: &'static str = "tracked";
    fn mk(id: u64) -> Self {
        TK::new(id)
    }
    fn id(&self) -> u64 {
        self.id.0
    }
    fn tok(&self) -> u64 {
        self.tok
    }
    fn alive(&self) -> bool {
        self.magic == MAGIC
    }
    fn with_q<R>(id: u64, f: impl FnOnce(&QK) -> R) -> R {
        f(&QK(id))
    }
}
/// heap-owning keys looked up through `&str`
impl KeyT for String {
    type Q = str;
    const NAME: &'static str = "string";
    fn mk(id: u64) -> Self {
        format!("key-{id}")
    }
    fn id(&self) -> u64 {
        self.strip_prefix("key-").and_then(|s| s.parse().ok()).unwrap_or(u64::MAX)
    }
    fn tok(&self) -> u64 {
        0
    }
    fn alive(&self) -> bool {
        self.starts_with("key-")
    }
    fn with_q<R>(id: u64, f: impl FnOnce(&str) -> R) -> R {
        let s = format!("key-{id}");
        f(s.as_str())
    }
}
