#![allow(dead_code)]
//! cvh - conformance harness for caches-rs.  It executes specification behaviours and random
//! histories on the real library (built from /repo's working tree with the `verif-hooks`
//! feature) and logs what happened; all judging is done by TLC against the TLA+ specification.
mod ctor;
mod exec;
mod hashers;
mod iters;
mod lfu;
mod putresult;
mod qalloc;
mod sut;
mod track;

use serde_json::{json, Value};
use std::io::BufReader;
use std::rc::Rc;

#[cfg_attr(not(miri), global_allocator)]
pub static GLOBAL: qalloc::QAlloc = qalloc::QAlloc::new();

pub struct Args {
    pub m: std::collections::HashMap<String, String>,
    pub flags: std::collections::HashSet<String>,
}
impl Args {
    fn parse(a: &[String]) -> Args {
        let mut m = std::collections::HashMap::new();
        let mut flags = std::collections::HashSet::new();
        let mut i = 0;
        while i < a.len() {
            if let Some(k) = a[i].strip_prefix("--") {
                if i + 1 < a.len() && !a[i + 1].starts_with("--") {
                    m.insert(k.to_string(), a[i + 1].clone());
                    i += 2;
                    continue;
                }
                flags.insert(k.to_string());
            }
            i += 1;
        }
        Args { m, flags }
    }
    pub fn get(&self, k: &str) -> Option<&str> {
        self.m.get(k).map(|s| s.as_str())
    }
    pub fn num(&self, k: &str, d: u64) -> u64 {
        self.get(k).and_then(|s| s.parse().ok()).unwrap_or(d)
    }
    pub fn has(&self, k: &str) -> bool {
        self.flags.contains(k)
    }
}

fn exec_cmd<K: track::KeyT>(a: &Args) -> exec::Stats {
    let cfg: Value = serde_json::from_str(a.get("cfg").expect("--cfg")).expect("cfg json");
    let nkeys = a.num("keys", 4);
    let table: Vec<u64> = match a.get("khtable") {
        Some(s) => serde_json::from_str(s).expect("khtable"),
        None => default_kh_table(nkeys, cfg.get("w").and_then(|v| v.as_u64()).unwrap_or(1)
            + cfg.get("a").and_then(|v| v.as_u64()).unwrap_or(1) + cfg.get("b").and_then(|v| v.as_u64()).unwrap_or(1)),
    };
    let env = sut::Env { hasher: a.get("hasher").unwrap_or("std").to_string(), kh_table: Rc::new(table), default_ctor: a.has("default-ctor") };
    let fl = exec::Flags { audit: a.has("audit"), tok: a.has("tok"), ro: !a.has("no-ro"), drop_ev: a.has("drop"), clone_ev: a.has("clone"), shuffle: a.num("shuffle", 0), faults: a.has("faults"), light: a.has("light"), progress: a.has("progress") };
    let random = a.get("random").map(|s| {
        let p: Vec<u64> = s.split(',').map(|x| x.parse().unwrap()).collect();
        (p[0] as usize, p[1] as usize, p[2])
    });
    let max_states = a.get("max-states").and_then(|s| s.parse().ok());
    if a.has("quarantine") {
        // node size of the list nodes of this instantiation
        let probe: sut::Raw<K> = <sut::Raw<K> as sut::Sut<K>>::build(&json!({"cap":1}), &env).unwrap();
        let sz = node_size(&probe);
        qalloc::QUARANTINE_SIZE.store(sz, std::sync::atomic::Ordering::Relaxed);
        drop(probe);
    }
    let input: Box<dyn std::io::Read> = match a.get("in") {
        Some(p) => Box::new(std::fs::File::open(p).expect("open --in")),
        None => Box::new(std::io::stdin()),
    };
    let mut input = BufReader::with_capacity(1 << 20, input);
    let mut out = exec::ShardWriter::new(a.get("out").map(|s| s.to_string()), a.num("shard", 0));
    out.mute = a.has("light");
    let skip = (a.num("skip-offset", 0), a.num("skip-step", 1));
    let dump_hists = a.get("dump-hists").map(|s| s.to_string());
    let kind = a.get("kind").expect("--kind");
    macro_rules! go {
        ($t:ty) => {
            exec::run_driver::<K, $t>(cfg, env, nkeys, fl, random, max_states, skip, dump_hists, &mut input, &mut out)
        };
    }
    match kind {
        "raw" => go!(sut::Raw<K>),
        "rawnc" => go!(sut::RawNc<K>),
        "slru" => go!(sut::Seg<K>),
        "2q" => go!(sut::TwoQ<K>),
        "arc" => go!(sut::Arc<K>),
        "wtlfu" => go!(sut::Wt<K>),
        o => panic!("unknown kind {o}"),
    }
}

fn node_size<K: track::KeyT>(probe: &sut::Raw<K>) -> usize {
    // a node holds key, value and two pointers; the audit hook reports the key offset, the
    // allocation size is derived from the type layout
    let _ = probe.verif_audit();
    let sz = std::mem::size_of::<K>() + std::mem::size_of::<track::TV>() + 2 * std::mem::size_of::<usize>();
    let al = std::mem::align_of::<K>().max(std::mem::align_of::<track::TV>()).max(8);
    (sz + al - 1) / al * al
}

/// hashes for the model keys 1..=n: well spread in the high bits (doorkeeper) and pairwise
/// distinct in the low bits used by a sketch of `size` counters (no sketch collisions while
/// n <= next_power_of_two(size))
pub fn default_kh_table(n: u64, size: u64) -> Vec<u64> {
    let mut width = 1u64;
    while width < size {
        width <<= 1;
    }
    let mut t = vec![0u64];
    for i in 1..=n {
        let hi = i.wrapping_mul(0x9E37_79B9_7F4A_7C15) & !(width - 1);
        t.push(hi | ((i - 1) & (width - 1)));
    }
    t
}

/// Aborts the process when the harness makes no progress for `secs` seconds: a library call that does not return (for
/// example a walk over a list that has become cyclic) would otherwise hang the check for ever.  The runner treats the
/// abort like any other death of the process by a signal.  (No allocation in this thread: the allocator is instrumented.)
#[cfg(not(miri))]
fn start_watchdog(secs: u64) {
    use std::sync::atomic::Ordering::Relaxed;
    std::thread::spawn(move || {
        let mut last = exec::HEARTBEAT.load(Relaxed);
        let mut idle = 0u64;
        loop {
            std::thread::sleep(std::time::Duration::from_secs(1));
            let now = exec::HEARTBEAT.load(Relaxed);
            if now == last && now > 0 {
                idle += 1;
                if idle >= secs {
                    use std::io::Write as _;
                    let _ = std::io::stderr().write_all(b"WATCHDOG: no progress, a library call did not return; aborting\n");
                    std::process::abort();
                }
            } else {
                last = now;
                idle = 0;
            }
        }
    });
}
#[cfg(miri)]
fn start_watchdog(_: u64) {}

fn main() {
    // panics injected into / raised by the code under test are data and are caught: no message, unless asked for
    if std::env::var("CVH_PANIC_MSG").is_ok() {
        std::panic::set_hook(Box::new(|i| eprintln!("PANIC-MSG {i}")));
    } else {
        std::panic::set_hook(Box::new(|_| {}));
    }
    start_watchdog(std::env::var("CVH_WATCHDOG_SECS").ok().and_then(|s| s.parse().ok()).unwrap_or(30));
    let argv: Vec<String> = std::env::args().collect();
    if argv.len() < 2 {
        eprintln!("usage: cvh <exec|...> [--options]");
        std::process::exit(2);
    }
    let a = Args::parse(&argv[2..]);
    match argv[1].as_str() {
        "exec" => {
            let st = match a.get("keytype").unwrap_or("tracked") {
                "tracked" => exec_cmd::<track::TK>(&a),
                "string" => exec_cmd::<String>(&a),
                o => panic!("unknown keytype {o}"),
            };
            eprintln!(
                "{}",
                json!({"states": st.states, "tests": st.tests, "events": st.events, "jumps": st.jumps, "panics": st.panics,
                       "anomalies": st.anomalies, "unreachable_prefix": st.unreachable_prefix, "nontrivial": st.nontrivial, "by_kind": st.by_kind,
                       "quarantined": qalloc::QUARANTINED.load(std::sync::atomic::Ordering::Relaxed)})
            );
        }
        "putresult" => eprintln!("{}", putresult::run(&a)),
        "iters" => eprintln!("{}", iters::run(&a)),
        "ctor" => eprintln!("{}", ctor::run(&a)),
        "tinylfu" => eprintln!("{}", lfu::run::<lfu::Tl>(&a)),
        "sampled" => eprintln!("{}", lfu::run::<lfu::Sl>(&a)),
        o => {
            eprintln!("unknown command {o}");
            std::process::exit(2);
        }
    }
}
