"""Instance tables: which configurations of which cache type are explored in which tier.

Per kind:
  mc      TLC model-checking / generation module
  trace   TLC trace-validation module
  policy  the policy property of this kind (PolicyStep)
An instance:
  name    label
  mc      constants of the MC module (Keys, Vals, ...)           -> closure + STATE emission
  tc      constants of the trace module
  cfg     harness construction parameters (JSON)
  keys    size of the key universe 1..keys (harness observations)
  random  (count, length) of seeded random histories appended to the drivers (optional)
  max_states  cap on the number of states replayed on the implementation (optional)
"""


def K(n):
    return set(range(1, n + 1))


KINDS = {
    'raw': dict(mc='MCRawLRU', trace='RawLRUTrace', policy='C06'),
    'slru': dict(mc='MCSegmented', trace='SegmentedTrace', policy='C07'),
    '2q': dict(mc='MCTwoQueue', trace='TwoQueueTrace', policy='C08'),
    'arc': dict(mc='MCAdaptive', trace='AdaptiveTrace', policy='C09'),
    'wtlfu': dict(mc='MCWTinyLFU', trace='WTinyLFUTrace', policy='C10'),
}


def raw(cap0, sizes, keys, vals, **kw):
    return dict(name='raw-c%d-k%d-v%d' % (cap0, keys, len(vals)), mc=dict(Cap0=cap0, Sizes=set(sizes), Keys=K(keys), Vals=set(vals)),
                tc={}, cfg={'cap': cap0}, keys=keys, **kw)


def slru(a, b, keys, vals, **kw):
    return dict(name='slru-%d-%d-k%d-v%d' % (a, b, keys, len(vals)), mc=dict(A=a, B=b, Keys=K(keys), Vals=set(vals)),
                tc=dict(A=a, B=b), cfg={'a': a, 'b': b}, keys=keys, **kw)


def twoq(size, q, g, keys, vals, **kw):
    return dict(name='2q-%d-%d-%d-k%d-v%d' % (size, q, g, keys, len(vals)), mc=dict(Size=size, Q=q, G=g, Keys=K(keys), Vals=set(vals)),
                tc=dict(Size=size, Q=q, G=g), cfg={'size': size, 'q': q, 'g': g}, keys=keys, **kw)


def arc(size, keys, vals, **kw):
    return dict(name='arc-%d-k%d-v%d' % (size, keys, len(vals)), mc=dict(Size=size, Keys=K(keys), Vals=set(vals)),
                tc=dict(Size=size), cfg={'size': size}, keys=keys, **kw)


GOLD = 0x9E3779B97F4A7C15


def colliding_table(keys, width=4):
    """hashes for keys 1..n where keys 1 and 2 share their sketch cells (equal low bits), the others do not"""
    t = [0]
    for i in range(1, keys + 1):
        hi = (i * GOLD) & 0xFFFFFFFFFFFFFFFF & ~(width - 1)
        t.append(hi | (0 if i <= 2 else (i - 2) % width))
    return t


def wt(w, a, b, samples, keys, vals, mode='abs', collide=False, **kw):
    if collide:
        kw['khtable'] = colliding_table(keys)
    return dict(name='wtlfu-%d-%d-%d-s%d-k%d-v%d-%s%s' % (w, a, b, samples, keys, len(vals), mode, '-coll' if collide else ''),
                mc=dict(W=w, A=a, B=b, Samples=samples, Mode=mode, Keys=K(keys), Vals=set(vals)),
                tc=dict(W=w, A=a, B=b), cfg={'w': w, 'a': a, 'b': b, 'samples': samples}, keys=keys, **kw)


INSTANCES = {
    'raw': {
        'quick': [raw(2, [0, 1, 3], 3, [1, 2], random=(30, 60)),
                  raw(1, [0, 2], 3, [1], random=(10, 40))],
        'thorough': [raw(2, [0, 1, 3], 4, [1, 2], random=(200, 120)),
                     raw(3, [0, 1, 2, 4], 4, [1, 2], random=(200, 200)), raw(2, [0, 1, 2147483647], 3, [1], random=(50, 100)),
                     raw(1, [0, 1, 2], 3, [1, 2], random=(50, 60))],
    },
    'slru': {
        'quick': [slru(1, 1, 3, [1, 2], random=(20, 50)),
                  slru(2, 1, 3, [1], random=(10, 50)),
                  slru(1, 2, 4, [1], random=(10, 50))],
        'thorough': [slru(1, 1, 4, [1, 2], random=(100, 100)), slru(2, 2, 4, [1, 2], random=(200, 150)),
                     slru(2, 1, 4, [1, 2], random=(100, 100)), slru(1, 2, 4, [1, 2], random=(100, 100)),
                     slru(3, 1, 5, [1], random=(100, 150)), slru(1, 3, 5, [1], random=(100, 150))],
    },
    '2q': {
        'quick': [twoq(1, 0, 1, 3, [1, 2], random=(10, 40)),
                  twoq(2, 0, 1, 4, [1], random=(10, 50)),
                  twoq(2, 2, 1, 4, [1], random=(10, 50)),
                  twoq(3, 1, 2, 4, [1], random=(20, 80))],
        'thorough': [twoq(1, 0, 1, 3, [1, 2]), twoq(1, 1, 1, 3, [1, 2]), twoq(2, 0, 1, 4, [1, 2]), twoq(2, 2, 1, 4, [1, 2]),
                     twoq(2, 1, 2, 5, [1, 2], random=(100, 100), max_states=12000), twoq(3, 0, 1, 5, [1]), twoq(3, 1, 2, 5, [1, 2], random=(200, 150), max_states=12000),
                     twoq(3, 3, 3, 5, [1]), twoq(4, 1, 2, 6, [1], random=(200, 200)), twoq(4, 2, 4, 6, [1], max_states=12000)],
    },
    'arc': {
        'quick': [arc(1, 3, [1, 2], random=(10, 40)),
                  arc(2, 4, [1], random=(20, 80))],
        'thorough': [arc(1, 3, [1, 2], random=(50, 60)), arc(2, 5, [1], random=(200, 150)), arc(2, 4, [1, 2], random=(100, 100), max_states=12000),
                     arc(3, 5, [1], random=(300, 200), max_states=12000)],
    },
    'wtlfu': {
        'quick': [wt(1, 1, 1, 6, 4, [1], random=(20, 80)),
                  wt(1, 1, 1, 6, 4, [1], collide=True, random=(20, 80), max_states=1200)],
        'thorough': [wt(1, 1, 1, 6, 4, [1, 2], random=(100, 150), max_states=15000), wt(1, 2, 1, 8, 4, [1], random=(100, 150), max_states=12000),
                     wt(2, 1, 1, 8, 4, [1], random=(100, 150), max_states=12000), wt(1, 1, 2, 8, 4, [1], random=(100, 150), max_states=12000),
                     wt(1, 1, 1, 3, 4, [1]), wt(1, 1, 1, 6, 4, [1], collide=True, random=(100, 150)), wt(2, 2, 2, 10, 5, [1], mode='both', random=(200, 250), max_states=30000)],
    },
}

# larger random-only scopes (no closure): name, kind, constants, cfg, keys, (count, len)
RANDOM_ONLY = {
    'quick': [
        dict(kind='raw', **raw(4, [0, 1, 2, 6], 8, [1, 2, 3], random=(20, 150))),
        dict(kind='slru', **slru(3, 2, 8, [1, 2, 3], random=(20, 150))),
        dict(kind='2q', **twoq(4, 1, 2, 8, [1, 2, 3], random=(20, 150))),
        dict(kind='arc', **arc(3, 8, [1, 2, 3], random=(20, 150))),
        dict(kind='wtlfu', **wt(2, 2, 2, 12, 8, [1, 2, 3], random=(20, 150))),
    ],
    'thorough': [
        dict(kind='raw', **raw(6, [0, 1, 3, 8], 12, [1, 2, 3], random=(300, 400))),
        dict(kind='slru', **slru(4, 3, 12, [1, 2, 3], random=(300, 400))),
        dict(kind='slru', **slru(2, 5, 10, [1, 2, 3], random=(200, 300))),
        dict(kind='2q', **twoq(6, 1, 3, 12, [1, 2, 3], random=(300, 400))),
        dict(kind='2q', **twoq(5, 5, 5, 12, [1, 2, 3], random=(200, 300))),
        dict(kind='2q', **twoq(5, 0, 1, 12, [1, 2, 3], random=(200, 300))),
        dict(kind='arc', **arc(4, 12, [1, 2, 3], random=(300, 400))),
        dict(kind='arc', **arc(6, 12, [1, 2, 3], random=(300, 400))),
        dict(kind='wtlfu', **wt(2, 3, 3, 20, 12, [1, 2, 3], random=(300, 400))),
        dict(kind='wtlfu', **wt(3, 2, 4, 7, 10, [1, 2, 3], random=(200, 300))),
    ],
}
