"""Instance tables: which configurations of which cache type are explored in which tier.

Per kind:
  mc      TLC model-checking / generation module
  trace   TLC trace-validation module
  policy  the policy property of this kind (PolicyStep)
An instance:
  name    label
  mc      constants of the MC module (Keys, Vals, ...)           -> closure + STATE emission
  tc      constants of the trace module
  cfg     harness construction parameters (JSON)
  keys    size of the key universe 1..keys (harness observations)
  random  (count, length) of seeded random histories appended to the drivers (optional)
  max_states  cap on the number of states replayed on the implementation (optional)
"""


def K(n):
    return set(range(1, n + 1))


KINDS = {
    'raw': dict(mc='MCRawLRU', trace='RawLRUTrace', policy='C06'),
    'slru': dict(mc='MCSegmented', trace='SegmentedTrace', policy='C07'),
    '2q': dict(mc='MCTwoQueue', trace='TwoQueueTrace', policy='C08'),
    'arc': dict(mc='MCAdaptive', trace='AdaptiveTrace', policy='C09'),
    'wtlfu': dict(mc='MCWTinyLFU', trace='WTinyLFUTrace', policy='C10'),
}


def raw(cap0, sizes, keys, vals, **kw):
    return dict(name='raw-c%d-k%d-v%d' % (cap0, keys, len(vals)), mc=dict(Cap0=cap0, Sizes=set(sizes), Keys=K(keys), Vals=set(vals)),
                tc={}, cfg={'cap': cap0}, keys=keys, **kw)


def slru(a, b, keys, vals, **kw):
    return dict(name='slru-%d-%d-k%d-v%d' % (a, b, keys, len(vals)), mc=dict(A=a, B=b, Keys=K(keys), Vals=set(vals)),
                tc=dict(A=a, B=b), cfg={'a': a, 'b': b}, keys=keys, **kw)


def twoq(size, q, g, keys, vals, rr=None, gr=None, **kw):
    """rr / gr: explicit ratios handed to the builder (otherwise the harness derives (n + 1/2) / size, or exactly 0.0 / 1.0 at the
    ends); they must floor to q / g: used for the non-zero ratios whose quota floors to 0 (C08's quantifier names them)"""
    cfg = {'size': size, 'q': q, 'g': g}
    name = '2q-%d-%d-%d-k%d-v%d' % (size, q, g, keys, len(vals))
    if rr is not None:
        assert int(size * rr) == q
        cfg['rr'] = rr
        name += '-rr%g' % rr
    if gr is not None:
        assert int(size * gr) == g
        cfg['gr'] = gr
        name += '-gr%g' % gr
    return dict(name=name, mc=dict(Size=size, Q=q, G=g, Keys=K(keys), Vals=set(vals)),
                tc=dict(Size=size, Q=q, G=g), cfg=cfg, keys=keys, **kw)


def arc(size, keys, vals, **kw):
    return dict(name='arc-%d-k%d-v%d' % (size, keys, len(vals)), mc=dict(Size=size, Keys=K(keys), Vals=set(vals)),
                tc=dict(Size=size), cfg={'size': size}, keys=keys, **kw)


GOLD = 0x9E3779B97F4A7C15


def colliding_table(keys, width=4):
    """hashes for keys 1..n where keys 1 and 2 share their sketch cells (equal low bits), the others do not"""
    t = [0]
    for i in range(1, keys + 1):
        hi = (i * GOLD) & 0xFFFFFFFFFFFFFFFF & ~(width - 1)
        t.append(hi | (0 if i <= 2 else (i - 2) % width))
    return t


def wt(w, a, b, samples, keys, vals, mode='abs', collide=False, **kw):
    if collide:
        kw['khtable'] = colliding_table(keys)
    return dict(name='wtlfu-%d-%d-%d-s%d-k%d-v%d-%s%s' % (w, a, b, samples, keys, len(vals), mode, '-coll' if collide else ''),
                mc=dict(W=w, A=a, B=b, Samples=samples, Mode=mode, Keys=K(keys), Vals=set(vals)),
                tc=dict(W=w, A=a, B=b), cfg={'w': w, 'a': a, 'b': b, 'samples': samples}, keys=keys, **kw)


INSTANCES = {
    'raw': {
        'quick': [raw(2, [0, 1, 3], 3, [1, 2], random=(30, 60)),
                  raw(1, [0, 2], 3, [1], random=(10, 40))],
        'thorough': [raw(2, [0, 1, 3], 4, [1, 2], random=(200, 120)),
                     raw(3, [0, 1, 2, 4], 4, [1, 2], random=(200, 200)), raw(2, [0, 1, 2147483647], 3, [1], random=(50, 100)),
                     raw(1, [0, 1, 2], 3, [1, 2], random=(50, 60))],
    },
    'slru': {
        'quick': [slru(1, 1, 3, [1, 2], random=(20, 50)),
                  slru(2, 1, 3, [1], random=(10, 50)),
                  slru(1, 2, 4, [1], random=(10, 50))],
        'thorough': [slru(1, 1, 4, [1, 2], random=(100, 100)), slru(2, 2, 4, [1, 2], random=(200, 150)),
                     slru(2, 1, 4, [1, 2], random=(100, 100)), slru(1, 2, 4, [1, 2], random=(100, 100)),
                     slru(3, 1, 5, [1], random=(100, 150)), slru(1, 3, 5, [1], random=(100, 150))],
    },
    '2q': {
        'quick': [twoq(1, 0, 1, 3, [1, 2], random=(10, 40)),
                  twoq(2, 0, 1, 4, [1], rr=0.49, gr=0.75, random=(10, 50)),       # non-zero ratio, quota floors to 0
                  twoq(2, 2, 1, 4, [1], random=(10, 50)),
                  twoq(3, 1, 2, 4, [1], random=(20, 80))],
        'thorough': [twoq(1, 0, 1, 3, [1, 2]), twoq(1, 1, 1, 3, [1, 2]), twoq(2, 0, 1, 4, [1, 2]), twoq(2, 2, 1, 4, [1, 2]),
                     twoq(2, 1, 2, 5, [1, 2], random=(100, 100), max_states=12000), twoq(3, 0, 1, 5, [1], rr=0.25, gr=0.5), twoq(3, 1, 2, 5, [1, 2], random=(200, 150), max_states=12000),
                     twoq(3, 3, 3, 5, [1]), twoq(4, 1, 2, 6, [1], random=(200, 200)), twoq(4, 2, 4, 6, [1], max_states=12000)],
    },
    'arc': {
        'quick': [arc(1, 3, [1, 2], random=(10, 40)),
                  arc(2, 4, [1], random=(20, 80))],
        'thorough': [arc(1, 3, [1, 2], random=(50, 60)), arc(2, 5, [1], random=(200, 150)), arc(2, 4, [1, 2], random=(100, 100), max_states=12000),
                     arc(3, 5, [1], random=(300, 200), max_states=12000)],
    },
    'wtlfu': {
        'quick': [wt(1, 1, 1, 6, 4, [1], random=(20, 80)),
                  wt(1, 1, 1, 6, 4, [1], collide=True, random=(20, 80), max_states=1200)],
        'thorough': [wt(1, 1, 1, 6, 4, [1, 2], random=(100, 150), max_states=15000), wt(1, 2, 1, 8, 4, [1], random=(100, 150), max_states=12000),
                     wt(2, 1, 1, 8, 4, [1], random=(100, 150), max_states=12000), wt(1, 1, 2, 8, 4, [1], random=(100, 150), max_states=12000),
                     wt(1, 1, 1, 3, 4, [1]), wt(1, 1, 1, 6, 4, [1], collide=True, random=(100, 150)), wt(2, 2, 2, 10, 5, [1], mode='both', random=(200, 250), max_states=30000)],
    },
}

# larger random-only scopes (no closure): name, kind, constants, cfg, keys, (count, len)
RANDOM_ONLY = {
    'quick': [
        dict(kind='raw', **raw(4, [0, 1, 2, 6], 8, [1, 2, 3], random=(20, 150))),
        dict(kind='slru', **slru(3, 2, 8, [1, 2, 3], random=(20, 150))),
        dict(kind='2q', **twoq(4, 1, 2, 8, [1, 2, 3], random=(20, 150))),
        dict(kind='arc', **arc(3, 8, [1, 2, 3], random=(20, 150))),
        dict(kind='wtlfu', **wt(2, 2, 2, 12, 8, [1, 2, 3], random=(20, 150))),
        # larger scopes (sizes 5..12, 12..18 keys, longer histories with workload profiles): what needs a threshold, a
        # longer list or a particular relation between two sizes to show
        dict(kind='raw', **raw(8, [0, 1, 2, 4, 7, 9, 12], 12, [1, 2, 3], random=(24, 300))),
        dict(kind='slru', **slru(5, 6, 14, [1, 2, 3], random=(24, 300))),
        dict(kind='slru', **slru(7, 3, 14, [1, 2, 3], random=(24, 300))),
        dict(kind='2q', **twoq(8, 2, 4, 14, [1, 2, 3], random=(24, 300))),
        dict(kind='2q', **twoq(12, 6, 12, 18, [1, 2, 3], random=(16, 400))),
        dict(kind='arc', **arc(5, 12, [1, 2, 3], random=(24, 300))),
        dict(kind='arc', **arc(8, 16, [1, 2, 3], random=(16, 400))),
        dict(kind='wtlfu', **wt(3, 5, 4, 24, 14, [1, 2, 3], random=(24, 300))),
        dict(kind='wtlfu', **wt(4, 3, 8, 30, 18, [1, 2, 3], random=(16, 400))),
        # big scopes (sizes 16..100, long histories): thresholds, batch sizes, "optimisations for large caches", size
        # relations such as one segment at least four times the other, the default 1/19/80 W-TinyLFU split
        dict(kind='raw', **raw(40, [0, 1, 2, 5, 10, 36, 38, 39, 41, 64], 64, [1, 2, 3], random=(12, 1500))),
        dict(kind='slru', **slru(20, 24, 64, [1, 2, 3], random=(12, 1500))),
        dict(kind='slru', **slru(4, 16, 32, [1, 2, 3], random=(12, 1500))),
        dict(kind='slru', **slru(33, 5, 56, [1, 2, 3], random=(12, 1500))),
        dict(kind='2q', **twoq(40, 10, 20, 72, [1, 2, 3], random=(12, 1500))),
        dict(kind='2q', **twoq(16, 4, 8, 28, [1, 2, 3], random=(12, 1000))),
        # ratio extremes at a larger size: quota = size, quota = size - 1, quota 0 with ghost = size
        dict(kind='2q', **twoq(16, 16, 16, 30, [1, 2, 3], random=(12, 1000))),
        dict(kind='2q', **twoq(16, 15, 8, 28, [1, 2, 3], random=(12, 1000))),
        dict(kind='2q', **twoq(20, 0, 20, 36, [1, 2, 3], random=(12, 1000))),
        dict(kind='arc', **arc(32, 72, [1, 2, 3], random=(12, 1500))),
        dict(kind='arc', **arc(16, 36, [1, 2, 3], random=(12, 1000))),
        dict(kind='wtlfu', **wt(8, 20, 24, 100, 72, [1, 2, 3], random=(12, 1500))),
        dict(kind='wtlfu', **wt(1, 19, 80, 200, 130, [1, 2, 3], random=(8, 2500))),
        # counter saturation: few keys, a sample window far longer than the history, so that victim and candidate both sit
        # at the ceiling of the 4-bit counters (15, 16 with the doorkeeper) when they are compared
        dict(kind='wtlfu', **wt(1, 1, 1, 1000, 4, [1, 2], random=(12, 400))),
        dict(kind='wtlfu', **wt(2, 2, 1, 600, 6, [1, 2], random=(12, 400))),
    ],
    'thorough': [
        dict(kind='raw', **raw(6, [0, 1, 3, 8], 12, [1, 2, 3], random=(300, 400))),
        dict(kind='slru', **slru(4, 3, 12, [1, 2, 3], random=(300, 400))),
        dict(kind='slru', **slru(2, 5, 10, [1, 2, 3], random=(200, 300))),
        dict(kind='2q', **twoq(6, 1, 3, 12, [1, 2, 3], random=(300, 400))),
        dict(kind='2q', **twoq(5, 5, 5, 12, [1, 2, 3], random=(200, 300))),
        dict(kind='2q', **twoq(5, 0, 1, 12, [1, 2, 3], random=(200, 300))),
        dict(kind='arc', **arc(4, 12, [1, 2, 3], random=(300, 400))),
        dict(kind='arc', **arc(6, 12, [1, 2, 3], random=(300, 400))),
        dict(kind='wtlfu', **wt(2, 3, 3, 20, 12, [1, 2, 3], random=(300, 400))),
        dict(kind='wtlfu', **wt(3, 2, 4, 7, 10, [1, 2, 3], random=(200, 300))),
        dict(kind='raw', **raw(8, [0, 1, 4, 12], 12, [1, 2, 3], random=(150, 500))),
        dict(kind='raw', **raw(16, [0, 3, 8, 14, 15, 17, 24], 24, [1, 2, 3], random=(100, 800))),
        dict(kind='slru', **slru(5, 6, 14, [1, 2, 3], random=(150, 500))),
        dict(kind='slru', **slru(7, 3, 14, [1, 2, 3], random=(150, 500))),
        dict(kind='slru', **slru(8, 8, 24, [1, 2, 3], random=(100, 800))),
        dict(kind='2q', **twoq(8, 2, 4, 14, [1, 2, 3], random=(150, 500))),
        dict(kind='2q', **twoq(12, 6, 12, 18, [1, 2, 3], random=(100, 600))),
        dict(kind='2q', **twoq(16, 4, 8, 24, [1, 2, 3], random=(100, 800))),
        dict(kind='arc', **arc(5, 12, [1, 2, 3], random=(150, 500))),
        dict(kind='arc', **arc(8, 16, [1, 2, 3], random=(150, 600))),
        dict(kind='arc', **arc(12, 24, [1, 2, 3], random=(100, 800))),
        dict(kind='wtlfu', **wt(3, 5, 4, 24, 14, [1, 2, 3], random=(150, 500))),
        dict(kind='wtlfu', **wt(4, 3, 8, 30, 18, [1, 2, 3], random=(100, 600))),
        dict(kind='wtlfu', **wt(5, 10, 10, 40, 30, [1, 2, 3], random=(100, 800))),
        dict(kind='raw', **raw(40, [0, 1, 2, 5, 10, 36, 38, 39, 41, 64], 64, [1, 2, 3], random=(20, 3000))),
        dict(kind='raw', **raw(100, [0, 1, 3, 7, 25, 50, 90, 97, 99, 101, 128], 150, [1, 2, 3], random=(10, 5000))),
        dict(kind='slru', **slru(20, 24, 64, [1, 2, 3], random=(20, 3000))),
        dict(kind='slru', **slru(4, 16, 32, [1, 2, 3], random=(20, 3000))),
        dict(kind='slru', **slru(33, 5, 56, [1, 2, 3], random=(20, 3000))),
        dict(kind='slru', **slru(64, 64, 180, [1, 2, 3], random=(10, 5000))),
        dict(kind='2q', **twoq(40, 10, 20, 72, [1, 2, 3], random=(20, 3000))),
        dict(kind='2q', **twoq(16, 4, 8, 28, [1, 2, 3], random=(20, 2000))),
        dict(kind='2q', **twoq(100, 25, 50, 200, [1, 2, 3], random=(10, 5000))),
        dict(kind='2q', **twoq(16, 16, 16, 30, [1, 2, 3], random=(20, 2000))),
        dict(kind='2q', **twoq(16, 15, 8, 28, [1, 2, 3], random=(20, 2000))),
        dict(kind='2q', **twoq(20, 0, 20, 36, [1, 2, 3], random=(20, 2000))),
        dict(kind='2q', **twoq(48, 47, 24, 90, [1, 2, 3], random=(10, 4000))),
        dict(kind='arc', **arc(32, 72, [1, 2, 3], random=(20, 3000))),
        dict(kind='arc', **arc(16, 36, [1, 2, 3], random=(20, 2000))),
        dict(kind='arc', **arc(100, 220, [1, 2, 3], random=(10, 5000))),
        dict(kind='wtlfu', **wt(8, 20, 24, 100, 72, [1, 2, 3], random=(20, 3000))),
        dict(kind='wtlfu', **wt(1, 19, 80, 200, 130, [1, 2, 3], random=(10, 5000))),
        dict(kind='wtlfu', **wt(2, 39, 160, 400, 260, [1, 2, 3], random=(6, 8000))),
        dict(kind='wtlfu', **wt(1, 1, 1, 1000, 4, [1, 2], random=(100, 600))),
        dict(kind='wtlfu', **wt(2, 2, 1, 600, 6, [1, 2], random=(100, 600))),
        dict(kind='wtlfu', **wt(1, 2, 2, 5000, 8, [1, 2], random=(25, 2000))),
    ],
}

# C18 in large states: (count, length) = number of random histories used as paths / their length; every history gets
# panics injected into one operation of every name at the first three user-code calls of every kind
FAULT_BIG = {
    'quick': [
        dict(kind='raw', **raw(40, [0, 1, 2, 5, 10, 36, 38, 39, 41, 64], 64, [1, 2], random=(2, 400))),
        dict(kind='slru', **slru(20, 24, 64, [1, 2], random=(2, 500))),
        dict(kind='2q', **twoq(40, 10, 20, 72, [1, 2], random=(2, 600))),
        dict(kind='arc', **arc(32, 72, [1, 2], random=(2, 600))),
        dict(kind='wtlfu', **wt(8, 20, 24, 100, 72, [1, 2], random=(2, 600))),
    ],
    'thorough': [
        dict(kind='raw', **raw(40, [0, 1, 2, 5, 10, 36, 38, 39, 41, 64], 64, [1, 2], random=(5, 400))),
        dict(kind='raw', **raw(100, [0, 1, 3, 7, 25, 50, 90, 97, 99, 101, 128], 150, [1, 2], random=(2, 1000))),
        dict(kind='slru', **slru(20, 24, 64, [1, 2], random=(5, 500))),
        dict(kind='slru', **slru(4, 40, 64, [1, 2], random=(3, 500))),
        dict(kind='2q', **twoq(40, 10, 20, 72, [1, 2], random=(5, 600))),
        dict(kind='2q', **twoq(16, 16, 16, 30, [1, 2], random=(3, 300))),
        dict(kind='arc', **arc(32, 72, [1, 2], random=(5, 600))),
        dict(kind='wtlfu', **wt(8, 20, 24, 100, 72, [1, 2], random=(5, 600))),
        dict(kind='wtlfu', **wt(1, 19, 80, 200, 130, [1, 2], random=(2, 1000))),
    ],
}
