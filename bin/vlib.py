"""Runner library for the caches-rs model-based verification (see DESIGN.md section 2.5).

Pipeline per (cache kind, instance):
  (A+B) TLC explores the policy specification exhaustively (INVARIANT + ACTION_CONSTRAINT =
        design-level check of the property predicates) and prints one STATE line per
        distinct reachable state (BFS-tree path) plus the operation alphabet;
  exec  the Rust harness replays every path on the REAL cache built from /repo's working
        tree and applies every operation of the alphabet from that state, logging one
        event per public call (plus seeded random histories at larger scope);
  (C)   TLC validates the trace against the specification, evaluating the predicate of the
        property under check (env PROP) on every event.
Exit codes of a check: 0 held, 1 violation (VIOLATION line + replay file), 2 tool error.
"""
import json, os, re, shutil, subprocess, sys, time, hashlib, fcntl, signal
from concurrent.futures import ThreadPoolExecutor

VERIF = os.path.dirname(os.path.dirname(os.path.abspath(__file__)))
SPEC = os.path.join(VERIF, 'spec')
REPO = os.environ.get('VERIF_REPO', '/repo')
NCPU = os.cpu_count() or 4


class ToolError(Exception):
    pass


def log(*a):
    print(*a, file=sys.stderr, flush=True)


# --------------------------------------------------------------------------- work dir
class Work:
    def __init__(self, tag):
        self.dir = os.path.join(VERIF, 'work', '%s-%d' % (tag, os.getpid()))
        shutil.rmtree(self.dir, ignore_errors=True)
        os.makedirs(self.dir)

    def path(self, *p):
        return os.path.join(self.dir, *p)

    def cleanup(self):
        if os.environ.get('VERIF_KEEP'):
            log('work dir kept:', self.dir)
            return
        shutil.rmtree(self.dir, ignore_errors=True)


# --------------------------------------------------------------------------- harness build
def build_harness(variant='std'):
    """cargo build of the harness against REPO's current working tree; returns the binary."""
    d = os.path.join(VERIF, 'harness' if variant == 'std' else 'harness-nostd')
    name = 'cvh' if variant == 'std' else 'cvh-nostd'
    target = os.path.join(d, 'target')
    cmd = ['cargo', 'build', '--offline', '--quiet', '--manifest-path', os.path.join(d, 'Cargo.toml')]
    env = dict(os.environ)
    env['CARGO_NET_OFFLINE'] = 'true'
    if REPO != '/repo':
        # build against a scratch copy (mutant self-test): override the path dependency
        cmd += ['--config', 'paths=["%s"]' % REPO]
        target = os.path.join(VERIF, 'work', 'target-' + hashlib.sha1(REPO.encode()).hexdigest()[:10])
        cmd += ['--target-dir', target]
    os.makedirs(os.path.join(VERIF, 'work'), exist_ok=True)
    with open(os.path.join(VERIF, 'work', '.cargo.lock'), 'w') as lk:
        fcntl.flock(lk, fcntl.LOCK_EX)
        t0 = time.time()
        p = subprocess.run(cmd, cwd=d, env=env, stdout=subprocess.PIPE, stderr=subprocess.STDOUT, text=True)
        if p.returncode != 0:
            raise ToolError('cargo build failed:\n' + p.stdout[-4000:])
        log('[build] %s %.1fs' % (name, time.time() - t0))
    return os.path.join(target, 'debug', name)


# --------------------------------------------------------------------------- TLC
def tla_value(v):
    if isinstance(v, bool):
        return 'TRUE' if v else 'FALSE'
    if isinstance(v, int):
        return str(v)
    if isinstance(v, str):
        return '"%s"' % v
    if isinstance(v, (set, frozenset, list, tuple)):
        return '{' + ', '.join(tla_value(x) for x in sorted(v)) + '}'
    raise ValueError(v)


def write_cfg(path, spec, consts, invariants=(), action_constraints=(), view=None, post=None, extra=()):
    with open(path, 'w') as f:
        f.write('SPECIFICATION %s\n' % spec)
        if consts:
            f.write('CONSTANTS\n')
            for k, v in consts.items():
                f.write(' %s = %s\n' % (k, tla_value(v)))
        for i in invariants:
            f.write('INVARIANT %s\n' % i)
        for a in action_constraints:
            f.write('ACTION_CONSTRAINT %s\n' % a)
        if view:
            f.write('VIEW %s\n' % view)
        if post:
            f.write('POSTCONDITION %s\n' % post)
        for e in extra:
            f.write(e + '\n')
        f.write('CHECK_DEADLOCK FALSE\n')


def run_tlc(module, cfg, workdir, tag, workers=4, env=None, timeout=3600, simulate=None, xmx='4g', out=None):
    md = os.path.join(workdir, 'md-' + tag)
    e = dict(os.environ)
    e['JAVA_TOOL_OPTIONS'] = '-Xss1g -Xmx%s -Dtlc2.tool.queue.IStateQueue=StateDeque -Djava.io.tmpdir=%s' % (xmx, workdir) \
        if env and 'TRACE' in env else '-Xmx%s -Djava.io.tmpdir=%s' % (xmx, workdir)
    if env:
        e.update(env)
    cmd = ['tlc', '-workers', str(workers), '-metadir', md, '-cleanup', '-noGenerateSpecTE', '-config', cfg]
    if simulate:
        cmd += ['-simulate', simulate[0], '-depth', str(simulate[1])]
    cmd += [os.path.join(SPEC, module + '.tla')]
    out = out or os.path.join(workdir, tag + '.tlc.out')
    t0 = time.time()
    with open(out, 'w') as f:
        try:
            p = subprocess.run(cmd, cwd=workdir, env=e, stdout=f, stderr=subprocess.STDOUT, timeout=timeout)
            rc = p.returncode
        except subprocess.TimeoutExpired:
            raise ToolError('TLC timeout (%ds) on %s' % (timeout, tag))
    shutil.rmtree(md, ignore_errors=True)
    return out, rc, time.time() - t0


RE_STATS = re.compile(r'(\d+) states generated, (\d+) distinct states found')
RE_DEPTH = re.compile(r'depth of the complete state graph search is (\d+)')


def tlc_summary(outfile):
    gen = dist = depth = 0
    err = []
    with open(outfile, errors='replace') as f:
        for line in f:
            if line.startswith('<<"STATE"') or line.startswith('<<"OPS"'):
                continue
            m = RE_STATS.search(line)
            if m:
                gen, dist = int(m.group(1)), int(m.group(2))
            m = RE_DEPTH.search(line)
            if m:
                depth = int(m.group(1))
            if line.startswith('Error:') or 'fails on spec step' in line or 'is violated' in line:
                err.append(line.strip()[:2000])
    return dict(generated=gen, distinct=dist, depth=depth, errors=err)


def tlc_model_check(module, consts, workdir, tag, emit, workers=4, timeout=3600):
    """(A)+(B): exhaustive exploration with the design-level predicates; STATE lines if emit."""
    cfg = os.path.join(workdir, tag + '.cfg')
    c = dict(consts)
    c['Emit'] = bool(emit)
    write_cfg(cfg, 'Spec', c, invariants=['Inv', 'EmitState'], action_constraints=['StepOK'], view='View')
    out, rc, wall = run_tlc(module, cfg, workdir, tag, workers=workers, timeout=timeout, xmx='8g')
    s = tlc_summary(out)
    s['wall_s'] = round(wall, 2)
    s['module'] = module
    s['constants'] = {k: (sorted(v) if isinstance(v, (set, frozenset)) else v) for k, v in consts.items()}
    if rc != 0 or s['errors'] or s['distinct'] == 0:
        tail = subprocess.run(['tail', '-30', out], stdout=subprocess.PIPE, text=True).stdout
        raise ToolError('TLC model check of %s failed (rc=%s): %s\n%s' % (tag, rc, s['errors'], tail))
    return out, s


def tlc_ops_only(module, consts, workdir, tag):
    """print the operation alphabet of an instance without exploring it (random-history drivers)"""
    cfg = os.path.join(workdir, tag + '.cfg')
    c = dict(consts)
    c['Emit'] = True
    write_cfg(cfg, 'Spec', c, invariants=['Inv'], view='View')
    out, rc, wall = run_tlc(module, cfg, workdir, tag, workers=1, simulate=('num=1', 2), timeout=300, xmx='1g')
    with open(out, errors='replace') as f:
        for line in f:
            if line.startswith('<<"OPS"'):
                opsfile = os.path.join(workdir, tag + '.ops')
                with open(opsfile, 'w') as g:
                    g.write(line)
                return opsfile
    raise ToolError('no OPS line from TLC for ' + tag)


RE_REJECT = re.compile(r'^<<"REJECT", (\d+), "(.*)">>\s*$')


HEAP_EXPLAINED = {'events': 0, 'with_panic': 0, 'shards': 0}   # events the pointer-level trace specs explained (HeapTrace / SegHeapTrace)
POLICY_DRIFT = {'records': 0, 'samples': []}      # records where the implementation's list is not the policy specification's (IterTrace)


def tlc_validate(trace_module, tconsts, prop, shard, workdir, tag, extra_env=None, timeout=1800):
    """(C): validate one shard; returns None if accepted, else (index, record).  A run that ends WITHOUT a verdict (the JVM
    was killed, out of memory or disk on a loaded machine) is repeated twice before it is reported as a tool error."""
    last = None
    for attempt in range(3):
        try:
            return _tlc_validate_once(trace_module, tconsts, prop, shard, workdir, tag, extra_env, timeout)
        except ToolError as e:
            last = e
            if 'without a verdict' not in str(e) or 'Attempted to' in str(e) or 'was evaluating' in str(e):
                raise           # an evaluation error of the specification is deterministic: do not retry
            time.sleep(5 * (attempt + 1))
    raise last


def _tlc_validate_once(trace_module, tconsts, prop, shard, workdir, tag, extra_env=None, timeout=1800):
    cfg = os.path.join(workdir, tag + '.cfg')
    if not os.path.exists(cfg):
        write_cfg(cfg, 'TSpec', tconsts, post='Accepted')
    env = {'TRACE': shard, 'PROP': prop}
    if extra_env:
        env.update(extra_env)
    out, rc, wall = run_tlc(trace_module, cfg, workdir, tag + '-' + os.path.basename(shard), workers=1, env=env,
                            timeout=timeout, xmx='3g')
    rej = None
    ok = False
    errs = []
    with open(out, errors='replace') as f:
        for line in f:
            m = RE_REJECT.match(line)
            if m:
                rec = json.loads(json.loads('"%s"' % m.group(2)))
                rej = (int(m.group(1)), rec)
            if 'Model checking completed. No error has been found' in line:
                ok = True
            if line.startswith('Error:'):
                errs.append(line.strip()[:1500])
            if line.startswith('<<"EXPLAINED"'):
                m2 = re.match(r'<<"EXPLAINED", (\d+), "with-panic", (\d+)', line)
                if m2:
                    HEAP_EXPLAINED['events'] += int(m2.group(1))
                    HEAP_EXPLAINED['with_panic'] += int(m2.group(2))
                    HEAP_EXPLAINED['shards'] += 1
            if line.startswith('<<"POLICY-DRIFT"'):
                POLICY_DRIFT['records'] += 1
                if len(POLICY_DRIFT['samples']) < 3:
                    POLICY_DRIFT['samples'].append(line.strip()[:400])
    if rej:
        os.remove(out)
        return rej
    if ok and rc == 0:
        os.remove(out)
        return None
    tail = subprocess.run(['tail', '-40', out], stdout=subprocess.PIPE, text=True).stdout
    raise ToolError('TLC trace validation failed without a verdict (%s, rc=%s): %s\n%s' % (tag, rc, errs, tail))


# --------------------------------------------------------------------------- Apalache (unbounded step)
LEN_MODULES = {'raw': ('RawLRULen', False), 'slru': ('SegmentedLen', True), '2q': ('TwoQueueLen', True),
               'arc': ('AdaptiveLen', True), 'wtlfu': ('WTinyLFULen', True)}


def apalache_inductive(module, has_consts, workdir, timeout=900):
    """Init => IndInv (length 0) and IndInv /\\ Next => IndInv' (length 1 from IndInit) with symbolic sizes"""
    res = dict(module=module, obligations=2, discharged=0, runs=[])
    for name, init, length in (('base', 'Init', 0), ('step', 'IndInit', 1)):
        out = os.path.join(workdir, 'apa-%s-%s' % (module, name))
        cmd = ['apalache-mc', 'check', '--init=' + init, '--inv=IndInv', '--length=%d' % length, '--out-dir=' + out]
        if has_consts:
            cmd.insert(2, '--cinit=ConstInit')
        cmd.append(os.path.join(SPEC, module + '.tla'))
        t0 = time.time()
        try:
            p = subprocess.run(cmd, cwd=workdir, stdout=subprocess.PIPE, stderr=subprocess.STDOUT, text=True, timeout=timeout,
                               env=dict(os.environ, JVM_ARGS='-Xmx3g'))
        except (subprocess.TimeoutExpired, OSError) as e:
            # the prover not finishing / not starting is not a verdict about the code: recorded, not fatal
            res['runs'].append(dict(obligation=name, ok=False, wall_s=round(time.time() - t0, 1), error=str(e)[:200]))
            continue
        ok = 'EXITCODE: OK' in p.stdout and 'NoError' in p.stdout
        if 'invariant' in p.stdout and 'violated' in p.stdout:
            res['violated'] = True              # a genuine counterexample to inductiveness
        res['runs'].append(dict(obligation=name, ok=ok, wall_s=round(time.time() - t0, 1), cmd=' '.join(cmd[:6])))
        shutil.rmtree(out, ignore_errors=True)
        if ok:
            res['discharged'] += 1
        else:
            res['output_tail'] = p.stdout[-1500:]
    return res


def tlaps_prove(module, workdir, timeout=600):
    """second, independent discharge of the inductive invariant: the TLAPS proof <module>Proof.tla (SMT/Zenon/PTL back ends)"""
    d = os.path.join(workdir, 'tlaps-' + module)
    os.makedirs(d, exist_ok=True)
    for f in (module + '.tla', module + 'Proof.tla'):
        shutil.copy(os.path.join(SPEC, f), os.path.join(d, f))
    t0 = time.time()
    try:
        p = subprocess.run(['tlapm', '--threads', '4', module + 'Proof.tla'], cwd=d, stdout=subprocess.PIPE, stderr=subprocess.STDOUT, text=True, timeout=timeout)
    except (subprocess.TimeoutExpired, OSError) as e:
        shutil.rmtree(d, ignore_errors=True)
        return dict(module=module + 'Proof', prover='tlapm', obligations=1, discharged=0, ok=False, output_tail='tlapm did not finish: %s' % str(e)[:200])
    m = re.search(r'All (\d+) obligations? proved', p.stdout)
    res = dict(module=module + 'Proof', prover='tlapm 1.6 (SMT, Zenon, PTL)', wall_s=round(time.time() - t0, 1),
               obligations=int(m.group(1)) if m else 0, discharged=int(m.group(1)) if m else 0, ok=bool(m))
    if not m:
        res['output_tail'] = p.stdout[-1200:]
    shutil.rmtree(d, ignore_errors=True)
    return res


# --------------------------------------------------------------------------- Miri tier
# leaks are ignored under Miri: after a panicking call the harness deliberately forgets the cache, and the harness' own
# live-allocation accounting (C04) is the leak detector; Stacked Borrows is off (DESIGN 4, C03)
MIRIFLAGS = '-Zmiri-disable-isolation -Zmiri-disable-stacked-borrows -Zmiri-ignore-leaks'


def select_states(tlc_out, n):
    """operation alphabet and an evenly spread selection of n state paths from a TLC output"""
    ops, states = None, []
    with open(tlc_out, errors='replace') as f:
        for line in f:
            m = re.match(r'^<<"(OPS|STATE)", "(.*)">>\s*$', line)
            if not m:
                continue
            v = json.loads(json.loads('"%s"' % m.group(2)))
            if m.group(1) == 'OPS':
                ops = [o for o in v['ops'] if o['op'] != 'ro']
            else:
                states.append(v['path'])
    if not states:
        return ops, []
    step = max(1, len(states) // n)
    return ops, states[::step][:n]


def miri_cmd(extra_cfg=()):
    d = os.path.join(VERIF, 'harness')
    cmd = ['cargo', '+nightly', 'miri', 'run', '--offline', '--quiet', '--manifest-path', os.path.join(d, 'Cargo.toml')]
    if REPO != '/repo':
        cmd += ['--config', 'paths=["%s"]' % REPO]
    return cmd


def miri_runs(shards, workdir, timeout):
    """shards: list of (tag, kind, cfg, keys, driver_file, flags). Runs them under Miri in parallel.
    Returns list of dicts(tag, rc, ub (bool), tail, stats)."""
    env = dict(os.environ, MIRIFLAGS=MIRIFLAGS, CARGO_NET_OFFLINE='true',
               CARGO_TARGET_DIR=os.path.join(VERIF, 'work', 'miri-target' + ('' if REPO == '/repo' else '-' + hashlib.sha1(REPO.encode()).hexdigest()[:8])))
    # build once (empty driver)
    empty = os.path.join(workdir, 'empty.drv')
    open(empty, 'w').close()
    p = subprocess.run(miri_cmd() + ['--', 'exec', '--kind', 'raw', '--cfg', '{"cap":1}', '--keys', '1', '--in', empty, '--light'],
                       cwd=os.path.join(VERIF, 'harness'), env=env, stdout=subprocess.PIPE, stderr=subprocess.PIPE, text=True, timeout=1200)
    if p.returncode != 0:
        raise ToolError('miri build/run failed: ' + p.stderr[-1500:])

    def one(s):
        tag, kind, cfg, keys, drv, flags = s
        cmd = miri_cmd() + ['--', 'exec', '--kind', kind, '--cfg', json.dumps(cfg), '--keys', str(keys), '--in', drv, '--light'] + list(flags)
        t0 = time.time()
        try:
            q = subprocess.run(cmd, cwd=os.path.join(VERIF, 'harness'), env=env, stdout=subprocess.PIPE, stderr=subprocess.PIPE, text=True, timeout=timeout)
            rc, err = q.returncode, q.stderr
        except subprocess.TimeoutExpired as e:
            rc, err = 124, (e.stderr or b'').decode(errors='replace') if isinstance(e.stderr, bytes) else (e.stderr or '')
        ub = 'Undefined Behavior' in err
        stats = None
        for line in err.splitlines():
            if line.startswith('{'):
                try:
                    stats = json.loads(line)
                except Exception:
                    pass
        return dict(tag=tag, rc=rc, ub=ub, tail=err[-1500:], stats=stats, wall_s=round(time.time() - t0, 1), driver=drv)
    return pool_map(one, shards, max(2, NCPU - 2))


# --------------------------------------------------------------------------- AddressSanitizer tier
def build_harness_asan():
    """nightly build of the harness with -Zsanitizer=address (no quarantine: ASan is the use-after-free detector)"""
    d = os.path.join(VERIF, 'harness')
    target = os.path.join(VERIF, 'work', 'asan-target' + ('' if REPO == '/repo' else '-' + hashlib.sha1(REPO.encode()).hexdigest()[:8]))
    cmd = ['cargo', '+nightly', 'build', '--offline', '--quiet', '--target', 'x86_64-unknown-linux-gnu', '--target-dir', target,
           '--manifest-path', os.path.join(d, 'Cargo.toml')]
    if REPO != '/repo':
        cmd += ['--config', 'paths=["%s"]' % REPO]
    env = dict(os.environ, RUSTFLAGS='-Zsanitizer=address', CARGO_NET_OFFLINE='true')
    with open(os.path.join(VERIF, 'work', '.cargo-asan.lock'), 'w') as lk:
        fcntl.flock(lk, fcntl.LOCK_EX)
        p = subprocess.run(cmd, cwd=d, env=env, stdout=subprocess.PIPE, stderr=subprocess.STDOUT, text=True, timeout=1800)
    if p.returncode != 0:
        return None, p.stdout[-1500:]
    return os.path.join(target, 'x86_64-unknown-linux-gnu', 'debug', 'cvh'), ''


def asan_run(binary, kind, cfg, keys, driver, flags, extra=(), timeout=1800):
    cmd = [binary, 'exec', '--kind', kind, '--cfg', json.dumps(cfg), '--keys', str(keys), '--in', driver, '--light'] + list(flags) + list(extra)
    env = dict(os.environ, ASAN_OPTIONS='detect_leaks=0:abort_on_error=0:halt_on_error=1')
    t0 = time.time()
    try:
        p = subprocess.run(cmd, stdout=subprocess.PIPE, stderr=subprocess.PIPE, text=True, timeout=timeout, env=env)
        rc, err = p.returncode, p.stderr
    except subprocess.TimeoutExpired:
        return dict(rc=124, asan=False, tail='timeout', stats=None, wall_s=round(time.time() - t0, 1))
    stats = None
    for line in err.splitlines():
        if line.startswith('{'):
            try:
                stats = json.loads(line)
            except Exception:
                pass
    return dict(rc=rc, asan='AddressSanitizer' in err, tail=err[-2500:], stats=stats, wall_s=round(time.time() - t0, 1), cmd=cmd)


# --------------------------------------------------------------------------- harness exec
def harness_exec(binary, kind, cfg, keys, infile, outprefix, flags=(), shard=20000, extra=(), timeout=3600):
    cmd = [binary, 'exec', '--kind', kind, '--cfg', json.dumps(cfg), '--keys', str(keys), '--in', infile,
           '--out', outprefix, '--shard', str(shard)] + list(flags) + list(extra)
    t0 = time.time()
    try:
        p = subprocess.run(cmd, stdout=subprocess.PIPE, stderr=subprocess.PIPE, text=True, timeout=timeout)
    except subprocess.TimeoutExpired:
        raise ToolError('harness timeout: ' + ' '.join(cmd))
    stats = None
    for line in p.stderr.splitlines():
        if line.startswith('{'):
            try:
                stats = json.loads(line)
            except Exception:
                pass
    res = dict(rc=p.returncode, stats=stats, wall_s=round(time.time() - t0, 2), stderr=p.stderr[-2000:], cmd=cmd)
    return res


def list_shards(prefix):
    d = os.path.dirname(prefix)
    b = os.path.basename(prefix)
    r = []
    for f in os.listdir(d):
        m = re.match(re.escape(b) + r'\.(\d+)\.ndjson$', f)
        if m and os.path.getsize(os.path.join(d, f)) > 0:
            r.append((int(m.group(1)), os.path.join(d, f)))
    return [p for _, p in sorted(r)]


def count_lines(path):
    n = 0
    with open(path, 'rb') as f:
        for _ in f:
            n += 1
    return n


def read_record(path, idx):
    """1-based record idx of a shard plus the jump record that precedes it"""
    jump = None
    with open(path) as f:
        for i, line in enumerate(f, 1):
            if i > idx:
                break
            if line.startswith('{"anomalies":[],"live"') or '"op":"jump"' in line[-400:] or '"op":"jump"' in line[:400]:
                try:
                    r = json.loads(line)
                    if r.get('op') == 'jump':
                        jump = r
                except Exception:
                    pass
            if i == idx:
                return json.loads(line), jump
    return None, jump


def cut_after(path, idx, newpath):
    """copy the records after idx starting at the next jump; returns number of records copied"""
    n = 0
    started = False
    with open(path) as f, open(newpath, 'w') as g:
        for i, line in enumerate(f, 1):
            if i <= idx:
                continue
            if not started:
                if '"op":"jump"' in line:
                    try:
                        if json.loads(line).get('op') == 'jump':
                            started = True
                    except Exception:
                        pass
                if not started:
                    continue
            g.write(line)
            n += 1
    return n


def state_path(tlc_out, sid):
    """the sid-th STATE line (1-based) of a TLC output = path to that state"""
    n = 0
    with open(tlc_out, errors='replace') as f:
        for line in f:
            if line.startswith('<<"STATE"'):
                n += 1
                if n == sid:
                    m = re.match(r'^<<"STATE", "(.*)">>\s*$', line)
                    return json.loads(json.loads('"%s"' % m.group(1)))['path']
    return None


# --------------------------------------------------------------------------- known findings
def load_known():
    p = os.environ.get('VERIF_KNOWN_FILE') or os.path.join(VERIF, 'known_findings.json')   # (override: runner self-test only)
    if not os.path.exists(p):
        return []
    return json.load(open(p)).get('known', [])


def match_known(prop, desc):
    for k in load_known():
        if k.get('property') != prop:
            continue
        m = k.get('match', {})
        if all(desc.get(f) == v for f, v in m.items()):
            return k
    return None


# --------------------------------------------------------------------------- evidence
def write_evidence(prop, tier, seed, level, coverage, wall, violations, assumptions):
    if REPO != '/repo':
        # self-test run against a scratch copy: never touch the evidence of the real tree
        d = os.path.join(VERIF, 'work', 'evidence-scratch')
        os.makedirs(d, exist_ok=True)
        with open(os.path.join(d, '%s-%d.json' % (prop, os.getpid())), 'w') as f:
            json.dump(dict(property_id=prop, tier=tier, repo=REPO, violations=violations, coverage=coverage), f)
        return
    os.makedirs(os.path.join(VERIF, 'evidence'), exist_ok=True)
    ev = dict(property_id=prop, tier=tier, seed=seed, level=level, coverage=coverage,
              assumptions=assumptions, wall_s=round(wall, 2), violations=violations)
    tmp = os.path.join(VERIF, 'evidence', prop + '.json.tmp')
    with open(tmp, 'w') as f:
        json.dump(ev, f, indent=1, sort_keys=True)
    os.replace(tmp, os.path.join(VERIF, 'evidence', prop + '.json'))


def pool_map(fn, items, workers):
    with ThreadPoolExecutor(max_workers=workers) as ex:
        return list(ex.map(fn, items))
