#!/usr/bin/env python3
"""Regenerates /verif/MANIFEST.json from the table below (single source of truth for the interface)."""
import json, os, subprocess
V = os.path.dirname(os.path.dirname(os.path.abspath(__file__)))

LIST_TEXT = ('TLC closes the reachable state space of the policy specification for the listed small instances and checks the '
             'property predicate on every specification transition; every reachable state x every operation is then executed on the '
             'real cache and TLC validates the recorded (pre, event, post) of every call against the same predicate; seeded random '
             'histories extend the scope. Exhaustive within the instance bounds, sampled beyond.')
NOTE = ('Trusted: TLC 1.8, the harness observation code, the verif-hooks read-only views. Bounds: instance constants in '
        'bin/instances.py (keys <= 6, capacities <= 4 in closure; random histories (no closure) at capacities up to 100 and up to 260 keys).')

CHECKS = {
    # id: (technique, design_ref, level category, extra text)
    'C01': ('TLA+ spec + TLC model checking + TLC trace validation of the real caches (PROP=C01)', '4 C01', 'model_checking', ''),
    'C02': ('TLA+ spec + TLC model checking + TLC trace validation (PROP=C02), tracked and String keys, colliding hasher', '4 C02', 'model_checking', ''),
    'C05': ('TLA+ spec + TLC model checking + TLC trace validation (PROP=C05: no event panics)', '4 C05', 'model_checking', ''),
    'C06': ('TLA+ RawLRU.tla + TLC closure + trace validation of every transition (PolicyStep)', '4 C06', 'model_checking', ''),
    'C07': ('TLA+ Segmented.tla + TLC closure + trace validation of every transition (PolicyStep)', '4 C07', 'model_checking', ''),
    'C08': ('TLA+ TwoQueue.tla + TLC closure + trace validation of every transition (PolicyStep), incl. observed quota / ghost bound = floor(size x ratio) for derived and explicit ratios', '4 C08', 'model_checking', ''),
    'C09': ('TLA+ Adaptive.tla + TLC closure + trace validation of every transition (PolicyStep)', '4 C09', 'model_checking', ''),
    'C10': ('TLA+ WTinyLFU.tla + TLC closure + trace validation with the real estimator verdict', '4 C10', 'model_checking', ''),
    'C12': ('TLA+ spec + TLC model checking + TLC trace validation (PROP=C12)', '4 C12', 'model_checking', ''),
    'C13': ('TLA+ spec + TLC model checking + TLC trace validation (PROP=C13: read-only events leave the full observation unchanged)', '4 C13', 'model_checking', ''),
    'C03': ('TLA+ structural audit predicate (C03Audit) evaluated by TLC on the hooked list/index dump after every call of every TLC-generated behaviour; pointer-level models RawLRUHeap / SegHeap / TwoQHeap / ArcHeap / WTinyHeap closed by TLC (Safe, WF, Reachable, Accounted, Refines); monitor anomalies judged on panicking calls too; quarantining+poisoning allocator (quick) and Miri on a sample of the generated behaviours (thorough) as memory monitors', '4 C03', 'model_checking', ''),
    'C04': ('TLA+ token-conservation predicate (C04Event) evaluated by TLC on drop-tracked keys/values of every call of every TLC-generated behaviour, cache dropped after every test; the pointer-level models (RawLRUHeap / SegHeap / TwoQHeap / ArcHeap / WTinyHeap: Accounted, Refines) closed by TLC and bound to the real caches by *HeapTrace on the same traces', '4 C04', 'model_checking', ''),
    'C16': ('TLA+ C16Step: clone in every reachable state (TLC closure), lock-step operation on original and clone, TLC validates equality/independence', '4 C16', 'model_checking', ''),
    'C17': ('TLA+ PairTrace.tla: the same TLC-generated drivers executed under five BuildHashers and a shuffled heap; TLC checks the traces are equal record by record', '4 C17', 'model_checking', ''),
    'C11': ('TLA+ TinyLFU.tla (abstract exact-count estimator + colliding-cell model checked by TLC for every collision structure) + TLC trace validation of the real TinyLFU (std and no_std builds): per-step observation relation and exact-count monitor', '4 C11', 'model_checking', ''),
    'C14': ('TLA+ Iter.tla cursor machine (TLC: every word over {next,next_back}) + IterTrace.tla: TLC recomputes the specification list by folding the policy spec over the path and validates every logged iterator run (12 families x lists x words) in every reachable state', '4 C14', 'model_checking', ''),
    'C18': ('fault enumeration driven by TLC-generated behaviours: for every reachable state x operation, the i-th call into user code of every kind (Hash, Eq, Clone, Drop, hasher, callback, KeyHasher) is made to panic for every i; TLC validates the TLA+ predicate C18Event (no double drop, nothing released or freed still reachable, no monitor anomaly) on the faulting call, on follow-up operations and on the final drop; the five pointer-level models with a Panic alternative at every user-code call point are closed by TLC (Safe, Reachable) and must explain every faulting call of the real RawLRU / Segmented / 2Q / ARC / W-TinyLFU caches (*HeapTrace)', '4 C18', 'fault_enumeration',
            'Every injection point (kind x ordinal of the user-code call) of every operation from every explored state is exercised once; the TLA+ ownership predicate is evaluated by TLC on every recorded event. Exhaustive over injection points per explored (state, operation); states are the first N of the TLC closure in the quick tier.'),
    'C19': ('TLA+ Borrow.tla (loan / Send-Sync rules over the method table extracted from the sources); TLC enumerates every (method x program shape) and (type x marker x element kind) probe with its expected verdict; rustc compiles the rendered probes: a probe the model rejects but rustc accepts is a violation', '4 C19', 'other',
            'Model-generated compile probes: the decision is made by rustc on programs enumerated by TLC from the borrow model; positive controls must compile. Covers the listed program shapes only (no laundering through closures/trait objects).'),
    'C20': ('TLA+ SampledLFU.tla (used defined as the sum of costs) + TLC closure + TLC trace validation of every transition and of fill_sample', '4 C20', 'model_checking', ''),
    'C15': ('TLA+ RawLRU.tla callback sequence + TLC trace validation (PROP=C15)', '4 C15', 'model_checking', ''),
}
NOT_YET = {}
for p in []:
    NOT_YET[p] = 'check under construction in this round (specification module and harness sub-command not committed yet); planned per DESIGN.md section 4'

def main():
    hooks = subprocess.run(['git', '-C', '/repo', 'log', '--format=%H', '--grep', '^verif-hooks'], stdout=subprocess.PIPE, text=True).stdout.split()
    man = {
        'version': 1,
        'setup_cmd': 'bin/setup',
        'hooks': {
            'guard': 'cargo feature verif-hooks',
            'enable': 'the harness crates depend on caches with features = ["verif-hooks"] (harness/Cargo.toml; harness-nostd/Cargo.toml adds default-features = false, hashbrown, libm)',
            'baseline_off_cmd': 'cd /repo && cargo test --workspace --no-fail-fast --offline',
            'source_commits': hooks,
            'add_only': True,
        },
        'engines': [
            {'name': 'tlc-spec', 'path': 'spec/', 'serves_properties': sorted(CHECKS), 'kind_free_text': 'TLA+ specification of every cache type, model-checked and used as trace-validation oracle by TLC'},
            {'name': 'cvh', 'path': 'harness/', 'serves_properties': sorted(CHECKS), 'kind_free_text': 'Rust conformance harness: replays TLC-generated behaviours and random histories on the real caches, logs events'},
            {'name': 'runner', 'path': 'bin/', 'serves_properties': sorted(CHECKS), 'kind_free_text': 'python runner: orchestration, evidence, replay files, known findings'},
        ],
        'checks': [],
        'not_applicable': [{'property_id': p, 'reason': r} for p, r in sorted(NOT_YET.items()) if p not in CHECKS],
        'notes': 'All checks rebuild the harness from /repo\'s working tree (cargo build --offline) before running. VERIF_SEED seeds the random histories.',
    }
    for p, (tech, ref, cat, extra) in sorted(CHECKS.items()):
        man['checks'].append({
            'property_id': p,
            'quick_cmd': 'bin/check %s --tier quick' % p,
            'thorough_cmd': 'bin/check %s --tier thorough' % p,
            'evidence_file': 'evidence/%s.json' % p,
            'replay_cmd_template': 'bin/check %s --replay {path}' % p,
            'engine': 'tlc-spec',
            'level_claimed': {'category': cat, 'text': extra or LIST_TEXT, 'design_ref': ref},
            'level_note': NOTE,
            'technique': tech,
        })
    json.dump(man, open(os.path.join(V, 'MANIFEST.json'), 'w'), indent=1)
    print('MANIFEST.json written:', len(man['checks']), 'checks,', len(man['not_applicable']), 'not applicable')

if __name__ == '__main__':
    main()
