"""Checks that do not go through the five-cache pipeline: C11 (TinyLFU), C20 (SampledLFU), ..."""
import json, os, time
import vlib
from vlib import log, ToolError

U64MAX = 18446744073709551615

ASSUMPTIONS = [
    'TLC 1.8 evaluates the TLA+ specification faithfully; the harness logs what the real calls returned (it does not judge)',
    'the library under test is /repo\'s current working tree built with cargo feature verif-hooks (read-only views only)',
    'closure is exhaustive only within the listed instance constants; larger scopes are sampled by seeded random histories',
]


def K(n):
    return set(range(1, n + 1))


def write_replay(prop, desc):
    import hashlib
    os.makedirs(os.path.join(vlib.VERIF, 'out'), exist_ok=True)
    sig = {k: desc.get(k) for k in ('cmd', 'cfg', 'path', 'op', 'hist', 'variant', 'khtable', 'what')}
    p = os.path.join(vlib.VERIF, 'out', '%s-%s.json' % (prop, hashlib.sha1(json.dumps(sig, sort_keys=True).encode()).hexdigest()[:12]))
    json.dump(desc, open(p, 'w'), indent=1)
    return p


def simple_exec(binary, cmd, cfg, keys, infile, outprefix, table=None, extra=(), shard=15000):
    c = [binary, cmd, '--cfg', json.dumps(cfg), '--keys', str(keys), '--in', infile, '--out', outprefix, '--shard', str(shard)]
    if table is not None:
        c += ['--khtable', json.dumps(table)]
    c += list(extra)
    import subprocess
    t0 = time.time()
    p = subprocess.run(c, stdout=subprocess.PIPE, stderr=subprocess.PIPE, text=True, timeout=3600)
    stats = None
    for line in p.stderr.splitlines():
        if line.startswith('{'):
            try:
                stats = json.loads(line)
            except Exception:
                pass
    return dict(rc=p.returncode, stats=stats, wall_s=round(time.time() - t0, 2), stderr=p.stderr[-2000:], cmd=c)


def run_simple(prop, tier, seed, cmd, mc, trace, instances, level='model_checking', variants=('std',), props_eval=None, collect=None):
    """generic TLC closure -> harness -> TLC trace validation for TinyLFU / SampledLFU"""
    t0 = time.time()
    work = vlib.Work(prop)
    try:
        bins = {v: vlib.build_harness(v) for v in variants}
        jobs = []
        for v in variants:
            for inst in instances:
                jobs.append(dict(inst=inst, variant=v, tag='%s-%s' % (inst['name'], v)))

        def gen(job):
            inst = job['inst']
            if inst.get('random_only'):
                drv = vlib.tlc_ops_only(mc, inst['mc'], work.dir, job['tag'] + '-ops')
                job['tlc'] = None
                extra = ['--max-states', '0']
            else:
                cfgp = work.path(job['tag'] + '-mc.cfg')
                c = dict(inst['mc'])
                c['Emit'] = True
                vlib.write_cfg(cfgp, 'Spec', c, invariants=['Inv', 'EmitState'], view='View')
                drv, rc, wall = vlib.run_tlc(mc, cfgp, work.dir, job['tag'] + '-mc', workers=4, xmx='6g')
                s = vlib.tlc_summary(drv)
                s['wall_s'] = round(wall, 2)
                s['constants'] = {k: (sorted(v) if isinstance(v, (set, frozenset)) else v) for k, v in inst['mc'].items()}
                if rc != 0 or s['errors'] or s['distinct'] == 0:
                    raise ToolError('TLC model check failed for %s: %s' % (job['tag'], s['errors']))
                job['tlc'] = s
                extra = ['--max-states', str(inst['max_states'])] if inst.get('max_states') else []
            job['driver'] = drv
            if inst.get('random'):
                n, ln = inst['random']
                extra += ['--random', '%d,%d,%d' % (n, ln, seed + 1), '--dump-hists', work.path(job['tag'] + '.hists')]
                job['hists'] = work.path(job['tag'] + '.hists')
                if inst.get('extra_ops'):
                    extra += ['--extra-ops', json.dumps(inst['extra_ops'])]
            extra += inst.get('flags', [])
            prefix = work.path(job['tag'] + '.trace')
            r = simple_exec(bins[job['variant']], cmd, inst['cfg'], inst['keys'], drv, prefix, table=inst.get('table'), extra=extra)
            job['exec'] = r
            if r['rc'] != 0:
                raise ToolError('harness failed rc=%s on %s: %s' % (r['rc'], job['tag'], r['stderr']))
            job['shards'] = vlib.list_shards(prefix)
            return job
        vlib.pool_map(gen, jobs, 4)

        def val(t):
            job, shard, pe = t
            out = []
            cur = shard
            for attempt in range(4):
                rej = vlib.tlc_validate(trace, job['inst'].get('tc', {}), pe, cur, work.dir, job['tag'] + '-tv-' + pe)
                if rej is None:
                    break
                idx, rec = rej
                _, jump = vlib.read_record(cur, idx)
                d = dict(cmd=cmd, instance=job['inst']['name'], cfg=job['inst']['cfg'], keys=job['inst']['keys'], variant=job['variant'],
                         khtable=job['inst'].get('table'), record=rec, pre=(jump or {}).get('obs'), sid=(jump or {}).get('sid'),
                         op={k: v for k, v in rec.items() if k in ('op', 'k', 'c', 'ks', 'inp')}, evaluated_as=pe)
                sid = d['sid']
                nst = (job['tlc'] or {}).get('distinct', 0)
                if sid is not None and job['tlc'] and sid <= nst:
                    d['path'] = vlib.state_path(job['driver'], sid)
                elif job.get('hists') and os.path.exists(job['hists']):
                    for line in open(job['hists']):
                        h = json.loads(line)
                        if h['sid'] == sid:
                            d['hist'] = h['hist']
                out.append(d)
                nxt = cur + '.c%d' % attempt
                if vlib.cut_after(cur, idx, nxt) == 0:
                    break
                cur = nxt
            return out
        pes = props_eval or [prop]
        tasks = [(j, s, pe) for j in jobs for s in j['shards'] for pe in pes]
        res = vlib.pool_map(val, tasks, max(2, vlib.NCPU - 2))
        viols = [d for r in res for d in r]
        if collect is not None:
            import checks
            for j in jobs:
                j['samples'] = checks.sample_records(j)
            collect.append((jobs, viols))
            return 0
        return finish_simple(prop, tier, seed, jobs, viols, t0, level)
    finally:
        work.cleanup()


def finish_simple(prop, tier, seed, jobs, viols, t0, level, extra_cov=None):
    new = []
    for d in viols:
        k = vlib.match_known(prop, d)
        if k:
            print('KNOWN-FINDING: property=%s %s' % (prop, k.get('what', '')), flush=True)
        else:
            new.append(d)
    states = sum((j.get('tlc') or {}).get('distinct', 0) for j in jobs)
    trans = sum((j.get('tlc') or {}).get('generated', 0) for j in jobs)
    events = sum((j['exec']['stats'] or {}).get('events', 0) for j in jobs)
    tests = sum((j['exec']['stats'] or {}).get('tests', 0) for j in jobs)
    nontriv = sum((j['exec']['stats'] or {}).get('nontrivial', 0) for j in jobs)
    by_kind = {}
    for j in jobs:
        for k, v in ((j['exec']['stats'] or {}).get('by_kind') or {}).items():
            by_kind[k] = by_kind.get(k, 0) + v
    import checks
    missing = [k for k in checks.REQUIRED_EVENTS.get(prop, []) if by_kind.get(k, 0) == 0]
    if missing and not viols and not os.environ.get('VERIF_ALLOW_VACUOUS'):
        raise ToolError('vacuous run of %s: no event of kind(s) %s was exercised on the implementation' % (prop, missing))
    samples = []
    for j in jobs[:3]:
        if j.get('samples'):
            samples.append(j['samples'])
        elif j.get('shards') and os.path.exists(j['shards'][0]):
            sr = checks.sample_records(j)
            if sr:
                samples.append(sr)
    cov = dict(states=states, transitions=trans, traces_validated_against_impl=tests, evaluations=events,
               distinct_nontrivial=nontriv,
               rule='every reachable abstract state of each listed instance (TLC closure) x every operation is executed on the real '
                    'object and judged by the TLA+ predicate; plus seeded random histories. Distinct by construction; non-trivial = '
                    'the pre-state is not the initial state.',
               samples=samples, exhaustive=True,
               instances=[dict(name=j['tag'], tlc=j.get('tlc'), exec=(j['exec']['stats'] or {}), shards=len(j.get('shards', []))) for j in jobs],
               events_by_op_and_result=by_kind,
               violations_seen=[dict(instance=d.get('instance'), op=d.get('op'), path=d.get('path')) for d in viols[:20]])
    if extra_cov:
        cov.update(extra_cov)
    vlib.write_evidence(prop, tier, seed, level, cov, time.time() - t0, len(new), ASSUMPTIONS)
    for d in new[:10]:
        rp = write_replay(prop, dict(d, property=prop))
        print('VIOLATION property=%s replay=%s' % (prop, rp), flush=True)
        log('  ', d.get('instance'), d.get('variant'), 'path=', json.dumps(d.get('path'))[:300], 'op=', json.dumps(d.get('op')),
            'rec=', json.dumps(d.get('record'))[:500])
    log('[%s] tier=%s states=%d transitions=%d tests=%d events=%d violations=%d (%d known) %.1fs' %
        (prop, tier, states, trans, tests, events, len(new), len(viols) - len(new), time.time() - t0))
    return 1 if new else 0


# --------------------------------------------------------------------------- C11
def tl_inst(size, samples, fp, keyed, keys, cells, table=None, **kw):
    # raw hashes: 0, all ones, 2^32, 2^63+5, an arbitrary one, 3, and 0xFF80..0 (every doorkeeper probe in the LAST 64-bit
    # word of a 512-bit filter: high part 511, low part 0)
    t = table or ([0] * (keyed + 1) + [0xFF80000000000000, 0, U64MAX, 1 << 32, (1 << 63) + 5, 12345678901234567, 3][:keys - keyed])
    return dict(name='tlfu-n%d-s%d-k%d-fp%s' % (size, samples, keys, str(fp).replace('.', 'p').replace('-', 'm')), mc=dict(Keys=K(keys), Samples=samples, Cells=cells),
                cfg={'size': size, 'samples': samples, 'fp': fp, 'keyed': keyed}, keys=keys, table=t, **kw)


EXTRA_TL = [{'op': 'increment_keys', 'ks': [1, 2, 1]}, {'op': 'increment_keys', 'ks': [3, 3]}, {'op': 'increment_keys', 'ks': []}]
C11_INST = {
    'quick': [tl_inst(8, 4, 0.01, 2, 3, 2, random=(30, 80), extra_ops=EXTRA_TL),
              tl_inst(2, 1, 0.5, 1, 2, 1, random=(10, 30)),
              tl_inst(64, 40, 0.01, 2, 4, 1, random_only=True, random=(10, 400)),
              tl_inst(64, 100, 0.7, 2, 4, 1, random_only=True, random=(10, 60)),      # permissive false-positive ratio
              tl_inst(16, 12, 0.999, 1, 3, 1, random_only=True, random=(10, 60)),
              tl_inst(1, 3, 0.01, 1, 2, 1, random_only=True, random=(10, 30)),
              # saturation: one key counted up to the 4-bit ceiling (15 + doorkeeper = 16) and through a reset, exhaustively,
              # and two keys (one through the keyed API, one through the hashed-key API) on long histories
              tl_inst(64, 36, 0.01, 1, 1, 1),
              tl_inst(64, 1000, 0.01, 1, 2, 1, random_only=True, random=(12, 250)),
              tl_inst(64, 60, 0.01, 2, 2, 1, random_only=True, random=(12, 250)),
              # wide sketches (rows of 16 bytes ... 128 KiB): word-at-a-time ageing, row-size limits
              tl_inst(300000, 50, 0.01, 2, 6, 1, random_only=True, random=(10, 300)),
              tl_inst(4096, 30, 0.01, 3, 6, 1, random_only=True, random=(10, 300))],
    'thorough': [tl_inst(8, 4, 0.01, 2, 3, 2, random=(200, 200), extra_ops=EXTRA_TL),
                 tl_inst(3, 5, 0.999, 2, 4, 2, random=(200, 200)),
                 tl_inst(2, 1, 0.5, 1, 2, 1, random=(50, 50)), tl_inst(2, 2, 0.000000001, 2, 3, 2, random=(100, 100)),
                 tl_inst(1, 3, 0.01, 1, 2, 1, random=(50, 50)),
                 tl_inst(64, 40, 0.01, 2, 5, 1, random_only=True, random=(100, 1500)),
                 tl_inst(64, 16, 0.01, 3, 6, 1, random_only=True, random=(100, 600)),
                 tl_inst(64, 100, 0.7, 2, 4, 1, random_only=True, random=(50, 200)), tl_inst(16, 12, 0.6, 1, 3, 1, random_only=True, random=(50, 100)),
                 tl_inst(32, 50, 0.9, 2, 4, 1, random_only=True, random=(50, 200)),
                 tl_inst(64, 36, 0.01, 1, 1, 1), tl_inst(64, 40, 0.01, 0, 1, 1),
                 tl_inst(64, 1000, 0.01, 1, 2, 1, random_only=True, random=(100, 400)),
                 tl_inst(64, 60, 0.01, 2, 2, 1, random_only=True, random=(100, 400)),
                 tl_inst(256, 500, 0.01, 2, 3, 1, random_only=True, random=(50, 1500)),
                 tl_inst(300000, 50, 0.01, 2, 6, 1, random_only=True, random=(100, 400)),
                 tl_inst(4096, 30, 0.01, 3, 6, 1, random_only=True, random=(100, 400)),
                 tl_inst(2000000, 200, 0.001, 2, 6, 1, random_only=True, random=(50, 1000))],
}


def c11(tier, seed, replay):
    return run_simple('C11', tier, seed, 'tinylfu', 'MCTinyLFU', 'TinyLFUTrace', C11_INST[tier], variants=('std', 'nostd'))


# --------------------------------------------------------------------------- C20
def sl_inst(max0, samples, keys, costs, maxes, **kw):
    return dict(name='slfu-m%d-s%d-k%d' % (max0, samples, keys), mc=dict(Keys=K(keys), CostsN={c + 10 for c in costs}, Off=10, Maxes=set(maxes), Max0=max0),
                cfg={'max': max0, 'samples': samples}, keys=keys,
                table=([0, 0, U64MAX, 7, 1 << 40, 99, 100, 101, 102] + [1000 + 7 * i for i in range(64)])[:keys + 1], **kw)


EXTRA_SL = [{'op': 'fill_sample', 'inp': []}, {'op': 'fill_sample', 'inp': [[3, 9]]}, {'op': 'fill_sample', 'inp': [[1, 1], [2, 2]]},
            {'op': 'fill_sample', 'inp': [[1, 1], [2, 2], [3, 3], [1, 4], [2, 5], [3, 6]]}, {'op': 'get_max_cost'}]
C20_INST = {
    'quick': [sl_inst(10, 5, 3, [-2, 0, 3], [0, 10], random=(30, 80), extra_ops=EXTRA_SL),
              sl_inst(100, 1, 3, [5], [100], random=(20, 60), extra_ops=EXTRA_SL),
              sl_inst(10, 0, 3, [0, 3], [10], random=(10, 40), extra_ops=EXTRA_SL),      # sample size 0: nothing is ever sampled
              sl_inst(7, 2, 5, [-2, 0, 3, 5], [0, 7, 100], random_only=True, random=(30, 150), extra_ops=EXTRA_SL),
              # larger tables: more tracked keys than the sample size several times over (default sample size 5, and 4, 8)
              sl_inst(1000, 5, 16, [-2, 0, 3, 5], [0, 1000], random_only=True, random=(20, 200), extra_ops=EXTRA_SL),
              sl_inst(500, 4, 12, [1, 2, 3], [500], random_only=True, random=(20, 200), extra_ops=EXTRA_SL),
              sl_inst(5000, 8, 40, [1, 7], [5000, 100], random_only=True, random=(10, 400), extra_ops=EXTRA_SL)],
    'thorough': [sl_inst(10, 5, 3, [-2, 0, 3], [0, 10], random=(300, 200), extra_ops=EXTRA_SL),
                 sl_inst(10, 2, 4, [-2, 3], [0, 10], random=(300, 200), extra_ops=EXTRA_SL),
                 sl_inst(100, 1, 3, [5], [100], random=(100, 100), extra_ops=EXTRA_SL),
                 sl_inst(7, 3, 8, [-2, 0, 3, 5], [0, 7, 100], random_only=True, random=(300, 400), extra_ops=EXTRA_SL),
                 sl_inst(1000, 5, 16, [-2, 0, 3, 5], [0, 1000], random_only=True, random=(200, 400), extra_ops=EXTRA_SL),
                 sl_inst(500, 4, 12, [1, 2, 3], [500], random_only=True, random=(200, 400), extra_ops=EXTRA_SL),
                 sl_inst(5000, 8, 40, [1, 7], [5000, 100], random_only=True, random=(100, 800), extra_ops=EXTRA_SL),
                 sl_inst(100000, 16, 60, [1, 7], [100000], random_only=True, random=(50, 1500), extra_ops=EXTRA_SL)],
}


def c20(tier, seed, replay):
    t0 = time.time()
    parts = []
    run_simple('C20', tier, seed, 'sampled', 'MCSampledLFU', 'SampledLFUTrace', C20_INST[tier], collect=parts)
    # every constructor carries the budget and the sample size it was given (Ctor.tla, Shape of the sampled_* calls)
    work = vlib.Work('C20-ctor')
    try:
        j, vs = ctor_grid('std', work, vlib.build_harness('std'), prop='C20')
        parts.append(([j], vs))
    finally:
        work.cleanup()
    jobs = [j for js, _ in parts for j in js]
    viols = [v for _, vs in parts for v in vs]
    return finish_simple('C20', tier, seed, jobs, viols, t0, 'model_checking')


# --------------------------------------------------------------------------- C05 (composite)
def ctor_grid(variant, work, binary, prop='C05'):
    """TLC enumerates the constructor grid; the harness runs it; TLC validates every outcome"""
    cfgp = work.path('ctor-%s.cfg' % variant)
    vlib.write_cfg(cfgp, 'Spec', {})
    drv, rc, wall = vlib.run_tlc('MCCtor', cfgp, work.dir, 'ctor-mc-' + variant, workers=1, xmx='2g')
    if rc != 0:
        raise ToolError('MCCtor failed')
    n = sum(1 for l in open(drv, errors='replace') if l.startswith('<<"CTOR"'))
    out = work.path('ctor-%s.0.ndjson' % variant)
    import subprocess
    p = subprocess.run([binary, 'ctor', '--in', drv, '--out', out], stdout=subprocess.PIPE, stderr=subprocess.PIPE, text=True)
    if p.returncode != 0:
        raise ToolError('ctor harness failed: ' + p.stderr[-1000:])
    stats = [json.loads(l) for l in p.stderr.splitlines() if l.startswith('{')][-1]
    job = dict(tag='ctor-grid-' + variant, inst=dict(name='ctor-grid', cfg={}, keys=0), variant=variant,
               tlc=dict(distinct=n, generated=n, module='MCCtor', wall_s=round(wall, 2), note='grid calls enumerated by TLC'),
               exec=dict(stats=stats, rc=0), shards=[out])
    viols = []
    cur = out
    for attempt in range(30):
        rej = vlib.tlc_validate('CtorTrace', {}, prop, cur, work.dir, 'ctor-tv-' + variant + prop)
        if rej is None:
            break
        idx, rec = rej
        viols.append(dict(cmd='ctor', instance='ctor-grid', variant=variant, record=rec, op=rec.get('call'),
                          what='constructor ' + json.dumps(rec.get('call')) + ' -> ' + str(rec.get('outcome')) + ' order=' + json.dumps(rec.get('order'))))
        nxt = cur + '.c%d' % attempt
        # no jumps in this trace: continue right after the rejected record
        with open(cur) as f, open(nxt, 'w') as g:
            k = 0
            for i, line in enumerate(f, 1):
                if i > idx:
                    g.write(line)
                    k += 1
        if k == 0:
            break
        cur = nxt
    with open(out) as f:
        job['samples'] = dict(instance=job['tag'], first_records=[json.loads(next(f)) for _ in range(3)])
    return job, viols


def c05(tier, seed, replay):
    import checks
    if replay:
        d = json.load(open(replay))
        if d.get('kind'):
            return checks.replay_list('C05', replay)
        log('replay of non-cache C05 findings: re-run the check; the finding is identified by', d.get('what') or d.get('op'))
        return 2
    t0 = time.time()
    parts = []
    # (1) every operation of every reachable state of the five caches, std build
    checks.run_list_prop('C05', tier, seed, collect=parts)
    # (2) the same on the no_std (hashbrown + libm) build, first instances
    checks.run_list_prop('C05', tier, seed, harness_variant='nostd', collect=parts, inst_limit=1 if tier == 'quick' else 3)
    # (3) frequency estimator and cost tracker, both builds, evaluated as C05 (no event panics)
    run_simple('C05', tier, seed, 'tinylfu', 'MCTinyLFU', 'TinyLFUTrace', C11_INST[tier], variants=('std', 'nostd'), collect=parts)
    run_simple('C05', tier, seed, 'sampled', 'MCSampledLFU', 'SampledLFUTrace', C20_INST[tier], variants=('std', 'nostd'), collect=parts)
    # (4) constructor / builder / conversion grid
    work = vlib.Work('C05-ctor')
    try:
        for v in ('std', 'nostd'):
            j, vs = ctor_grid(v, work, vlib.build_harness(v))
            parts.append(([j], vs))
    finally:
        work.cleanup()
    jobs = [j for js, _ in parts for j in js]
    viols = [v for _, vs in parts for v in vs]
    for j in jobs:
        j.setdefault('tag', j['inst']['name'])
    return finish_simple('C05', tier, seed, jobs, viols, t0, 'model_checking')


# --------------------------------------------------------------------------- C12 (composite: list caches + structural PutResult)
def putresult_table(work, binary):
    cfgp = work.path('pr.cfg')
    vlib.write_cfg(cfgp, 'Spec', {})
    drv, rc, wall = vlib.run_tlc('MCPutResultEq', cfgp, work.dir, 'pr-mc', workers=1, xmx='1g')
    if rc != 0:
        raise ToolError('MCPutResultEq failed')
    out = work.path('pr.0.ndjson')
    import subprocess
    p = subprocess.run([binary, 'putresult', '--in', drv, '--out', out], stdout=subprocess.PIPE, stderr=subprocess.PIPE, text=True)
    if p.returncode != 0:
        raise ToolError('putresult harness failed: ' + p.stderr[-1000:])
    stats = [json.loads(l) for l in p.stderr.splitlines() if l.startswith('{')][-1]
    job = dict(tag='putresult-15x15', inst=dict(name='putresult-15x15', cfg={}, keys=0), variant='std',
               tlc=dict(distinct=stats['events'], generated=stats['events'], module='MCPutResultEq', wall_s=round(wall, 2)),
               exec=dict(stats=stats, rc=0), shards=[out])
    viols = []
    rej = vlib.tlc_validate('PutResultTrace', {}, 'C12', out, work.dir, 'pr-tv')
    if rej:
        viols.append(dict(cmd='putresult', instance='putresult-15x15', record=rej[1], op={'op': 'eq', 'a': rej[1].get('a'), 'b': rej[1].get('b')},
                          what='PutResult equality/clone is not structural for ' + json.dumps(rej[1].get('a')) + ' vs ' + json.dumps(rej[1].get('b'))))
    with open(out) as f:
        job['samples'] = dict(instance=job['tag'], first_records=[json.loads(next(f)) for _ in range(2)])
    return job, viols


def c12(tier, seed, replay):
    import checks
    if replay:
        d = json.load(open(replay))
        if d.get('kind'):
            return checks.replay_list('C12', replay)
        return 2
    t0 = time.time()
    parts = []
    checks.run_list_prop('C12', tier, seed, collect=parts)
    work = vlib.Work('C12-pr')
    try:
        j, vs = putresult_table(work, vlib.build_harness('std'))
        parts.append(([j], vs))
    finally:
        work.cleanup()
    jobs = [j for js, _ in parts for j in js]
    viols = [v for _, vs in parts for v in vs]
    return finish_simple('C12', tier, seed, jobs, viols, t0, 'model_checking')


# --------------------------------------------------------------------------- C14 (iterators)
def c14(tier, seed, replay):
    from instances import INSTANCES, KINDS
    import instances as I
    prop = 'C14'
    t0 = time.time()
    work = vlib.Work(prop)
    try:
        binary = vlib.build_harness('std')
        # (A) the cursor machine itself: every word over {next,next_back} of length <= len+2 on every list of length <= MaxLen
        cfgp = work.path('mciter.cfg')
        vlib.write_cfg(cfgp, 'Spec', {'MaxLen': 3 if tier == 'quick' else 4})
        out, rc, wall = vlib.run_tlc('MCIter', cfgp, work.dir, 'mciter', workers=1, xmx='4g')
        s = vlib.tlc_summary(out)
        if rc != 0 or s['errors']:
            raise ToolError('MCIter failed: %s' % s['errors'])
        plan = {
            'quick': [('raw', I.raw(3, [0, 2], 4, [1]), dict(Kind='raw', P1=3, P2=0, P3=0), 120, True),
                      ('2q', I.twoq(3, 1, 2, 4, [1]), dict(Kind='2q', P1=3, P2=1, P3=2), 120, False),
                      ('arc', I.arc(2, 4, [1]), dict(Kind='arc', P1=2, P2=0, P3=0), 120, False)],
            'thorough': [('raw', I.raw(4, [0, 2], 5, [1]), dict(Kind='raw', P1=4, P2=0, P3=0), 1500, True),
                         ('raw', I.raw(1, [0, 2], 3, [1, 2]), dict(Kind='raw', P1=1, P2=0, P3=0), None, True),
                         ('2q', I.twoq(3, 1, 2, 5, [1]), dict(Kind='2q', P1=3, P2=1, P3=2), 1500, False),
                         ('2q', I.twoq(2, 0, 1, 4, [1]), dict(Kind='2q', P1=2, P2=0, P3=1), None, True),
                         ('arc', I.arc(2, 5, [1]), dict(Kind='arc', P1=2, P2=0, P3=0), 1500, False),
                         ('arc', I.arc(3, 5, [1]), dict(Kind='arc', P1=3, P2=0, P3=0), 800, False)],
        }[tier]
        jobs = []
        for kind, inst, tc, ms, allw in plan:
            jobs.append(dict(kind=kind, inst=dict(inst, tc=tc), max_states=ms, all_words=allw, tag='iter-' + inst['name']))
        # long lists (10..40 entries): states reached by seeded random histories; words with skips into both halves
        bign = 3 if tier == 'quick' else 12
        for kind, inst, tc in [('raw', I.raw(24, [0, 30], 30, [1]), dict(Kind='raw', P1=24, P2=0, P3=0)),
                               ('raw', I.raw(40, [0, 64], 44, [1]), dict(Kind='raw', P1=40, P2=0, P3=0)),
                               ('2q', I.twoq(16, 4, 8, 28, [1]), dict(Kind='2q', P1=16, P2=4, P3=8)),
                               ('arc', I.arc(12, 30, [1]), dict(Kind='arc', P1=12, P2=0, P3=0))]:
            jobs.append(dict(kind=kind, inst=dict(inst, tc=tc), max_states=None, all_words=False, tag='iter-big-' + inst['name'],
                             random=(bign, 150 if kind != 'raw' else 90)))

        def gen(job):
            kd = KINDS[job['kind']]
            if job.get('random'):
                drv, st = vlib.tlc_ops_only(kd['mc'], job['inst']['mc'], work.dir, job['tag'] + '-ops'), None
            else:
                drv, st = vlib.tlc_model_check(kd['mc'], job['inst']['mc'], work.dir, job['tag'] + '-mc', emit=True)
            job['tlc'], job['driver'] = st, drv
            prefix = work.path(job['tag'] + '.trace')
            c = [binary, 'iters', '--kind', job['kind'], '--cfg', json.dumps(job['inst']['cfg']), '--in', drv, '--out', prefix, '--shard', '3000']
            if job.get('random'):
                c += ['--max-states', '0', '--random', '%d,%d,%d' % (job['random'][0], job['random'][1], seed + 3)]
            if job['max_states']:
                c += ['--max-states', str(job['max_states'])]
            if job['all_words']:
                c += ['--all-words']
            import subprocess
            p = subprocess.run(c, stdout=subprocess.PIPE, stderr=subprocess.PIPE, text=True)
            if p.returncode < 0:
                # the process died while driving an iterator (abort on a null/misaligned pointer check, SIGSEGV): the iterator
                # walked off its list - a violation of C14 (and of C03), not a tool error
                job['crash'] = dict(cmd='iters', kind=job['kind'], instance=job['inst']['name'], cfg=job['inst']['cfg'], op={'op': 'process-crash'},
                                    crash_signal=-p.returncode, stderr=p.stderr[-600:], record={'ret': 'iterator battery killed the process'})
                job['exec'] = dict(rc=p.returncode, stats={})
                job['shards'] = []
                return job
            if p.returncode != 0:
                raise ToolError('iters harness failed: ' + p.stderr[-1500:])
            job['exec'] = dict(rc=0, stats=[json.loads(l) for l in p.stderr.splitlines() if l.startswith('{')][-1])
            job['shards'] = vlib.list_shards(prefix)
            return job
        vlib.pool_map(gen, jobs, 3)

        def val(t):
            job, shard = t
            out = []
            cur = shard
            for attempt in range(3):
                rej = vlib.tlc_validate('IterTrace', job['inst']['tc'], prop, cur, work.dir, job['tag'] + '-tv')
                if rej is None:
                    break
                idx, rec = rej
                out.append(dict(cmd='iters', kind=job['kind'], instance=job['inst']['name'], cfg=job['inst']['cfg'], record=rec, path=rec.get('path'),
                                op=dict(op='iter', list=rec.get('list'), fam=rec.get('fam'), word=' '.join((st[0] if st[1] < 0 else 'nth%s(%d)' % ('' if st[0] == 'n' else '_back', st[1])) for st in rec.get('word', [])))))
                nxt = cur + '.c%d' % attempt
                k = 0
                with open(cur) as f, open(nxt, 'w') as g:
                    for i, line in enumerate(f, 1):
                        if i > idx:
                            g.write(line)
                            k += 1
                if k == 0:
                    break
                cur = nxt
            return out
        tasks = [(j, s) for j in jobs for s in j['shards']]
        res = vlib.pool_map(val, tasks, max(2, vlib.NCPU - 2))
        viols = [j['crash'] for j in jobs if j.get('crash')] + [d for r in res for d in r]
        if vlib.POLICY_DRIFT['records']:
            log('[C14] POLICY-DRIFT (not a C14 violation): in %d records the list the iterators walk is not the list of the policy '
                'specification (the policy checks C06/C08/C09 judge that); the iterators were judged against the actual content, e.g. %s'
                % (vlib.POLICY_DRIFT['records'], vlib.POLICY_DRIFT['samples'][:1]))
        return finish_simple(prop, tier, seed, jobs, viols, t0, 'model_checking',
                             extra_cov=dict(policy_drift_records=vlib.POLICY_DRIFT['records'], cursor_machine=dict(module='MCIter', max_len=3 if tier == 'quick' else 4, wall_s=round(wall, 1),
                                                                note='every list of length <= max_len x both kinds x every word over {next,next_back} of length <= len+2')))
    finally:
        work.cleanup()


# --------------------------------------------------------------------------- C16 (composite: caches + TinyLFU)
def c16(tier, seed, replay):
    import checks
    if replay:
        d = json.load(open(replay))
        if d.get('kind'):
            return checks.replay_list('C16', replay)
        return 2
    t0 = time.time()
    parts = []
    checks.run_list_prop('C16', tier, seed, collect=parts)
    insts = [dict(i, flags=['--clone'], random=None, extra_ops=None) for i in C11_INST[tier] if not i.get('random_only')]
    # doorkeepers larger than the 512-bit minimum (samples >= 54 at fp 0.01) and a wide sketch
    insts.append(dict(tl_inst(4096, 200, 0.01, 1, 2, 1), flags=['--clone'], random=(10, 120), max_states=400))
    run_simple('C16', tier, seed, 'tinylfu', 'MCTinyLFU', 'TinyLFUTrace', insts, collect=parts)
    jobs = [j for js, _ in parts for j in js]
    viols = [v for _, vs in parts for v in vs]
    return finish_simple('C16', tier, seed, jobs, viols, t0, 'model_checking')


def c19_entry(tier, seed, replay):
    import c19
    return c19.c19(tier, seed, replay)


CHECKS = {'C11': c11, 'C20': c20, 'C05': c05, 'C12': c12, 'C14': c14, 'C16': c16, 'C19': c19_entry}
