CHECKS = {}
