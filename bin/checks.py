"""Per-property check drivers (see DESIGN.md section 4)."""
import json, os, sys, time, hashlib, argparse, traceback
import vlib
from vlib import log, ToolError
from instances import KINDS, INSTANCES, RANDOM_ONLY

ALL_KINDS = ['raw', 'slru', '2q', 'arc', 'wtlfu']

# property -> (kinds, PROP names evaluated by the trace spec, harness flags, level)
LIST_PROPS = {
    'C01': dict(kinds=ALL_KINDS, flags=[]),
    'C02': dict(kinds=ALL_KINDS, flags=[], variants=[('tracked', 'std'), ('string', 'std'), ('tracked', 'zero')]),
    'C03': dict(kinds=ALL_KINDS, flags=['--audit', '--quarantine', '--drop']),
    'C04': dict(kinds=ALL_KINDS, flags=['--tok', '--drop']),
    'C05': dict(kinds=ALL_KINDS, flags=[]),
    'C06': dict(kinds=['raw'], flags=[]),
    'C07': dict(kinds=['slru'], flags=[]),
    'C08': dict(kinds=['2q'], flags=[]),
    'C09': dict(kinds=['arc'], flags=[]),
    'C10': dict(kinds=['wtlfu'], flags=[]),
    'C12': dict(kinds=ALL_KINDS, flags=[]),
    'C13': dict(kinds=ALL_KINDS, flags=[]),
    'C15': dict(kinds=['raw'], flags=[]),
    # panic injection at every call into user code (Hash, Eq, Clone, Drop, hasher, callback, KeyHasher)
    'C18': dict(kinds=ALL_KINDS, flags=['--faults', '--tok', '--audit', '--quarantine', '--drop', '--no-ro'], no_random_only=True,
                quick_max_states=40, thorough_max_states=250, level='fault_enumeration', no_random=True, fault_big=True),
    # clone in every reachable state, under hashers that change the hash-map iteration order
    'C16': dict(kinds=['raw', 'slru', 'wtlfu'], flags=['--clone', '--no-ro'],
                variants=[('tracked', 'std'), ('tracked', 'zero'), ('tracked', 'ident')], quick_max_states=1500),
}

ASSUMPTIONS = [
    'TLC 1.8 evaluates the TLA+ specification faithfully; the harness logs what the real calls returned (it does not judge)',
    'the library under test is /repo\'s current working tree built with cargo feature verif-hooks (read-only views only)',
    'closure is exhaustive only within the listed instance constants; larger scopes are sampled by seeded random histories',
]


class Violation:
    def __init__(self, prop, desc, replay):
        self.prop, self.desc, self.replay = prop, desc, replay


def digest(o):
    return hashlib.sha1(json.dumps(o, sort_keys=True).encode()).hexdigest()[:12]


def write_replay(prop, desc):
    os.makedirs(os.path.join(vlib.VERIF, 'out'), exist_ok=True)
    sig = {k: desc.get(k) for k in ('kind', 'cfg', 'path', 'op', 'hist', 'variant')}
    p = os.path.join(vlib.VERIF, 'out', '%s-%s.json' % (prop, digest(sig)))
    with open(p, 'w') as f:
        json.dump(desc, f, indent=1)
    return p


# --------------------------------------------------------------------------- list caches
def stage_generate(job, work, binary, flags, seed, variant):
    """TLC exploration + harness execution for one (kind, instance); fills job in place."""
    kind, inst = job['kind'], job['inst']
    kd = KINDS[kind]
    tag = inst['name'] + ('' if variant == ('tracked', 'std') else '-%s-%s' % variant) + ('-nocb' if job.get('nocb') else '') + ('-clone' if job.get('clone_mode') else '')
    job['tag'] = tag
    if job.get('random_only'):
        drv = vlib.tlc_ops_only(kd['mc'], inst['mc'], work.dir, tag + '-ops')
        job['tlc'] = None
        extra_max = ['--max-states', '0']
    else:
        drv, s = vlib.tlc_model_check(kd['mc'], inst['mc'], work.dir, tag + '-mc', emit=True, workers=job.get('workers', 4))
        job['tlc'] = s
        ms = inst.get('max_states')
        if job.get('quick_max_states'):
            ms = min(ms or 10**9, job['quick_max_states'])
        extra_max = ['--max-states', str(ms)] if ms else []
    job['driver'] = drv
    extra = list(extra_max) + ['--keytype', variant[0], '--hasher', variant[1]]
    if inst.get('khtable'):
        extra += ['--khtable', json.dumps(inst['khtable'])]
    if inst.get('random') and not job.get('no_random'):
        n, ln = inst['random']
        extra += ['--random', '%d,%d,%d' % (n, ln, seed + 1), '--dump-hists', work.path(tag + '.hists')]
        job['hists'] = work.path(tag + '.hists')
    prefix = work.path(tag + '.trace')
    r = vlib.harness_exec(binary, 'rawnc' if job.get('nocb') else kind, inst['cfg'], inst['keys'], drv, prefix, flags=flags, extra=extra,
                          shard=job.get('shard', 15000))
    job['exec'] = r
    job['shards'] = vlib.list_shards(prefix)
    return job


def locate_crash(job, binary, flags, seed, work):
    """re-run the crashing job with --progress: the last PROGRESS line on stderr names the test that killed the process"""
    inst = job['inst']
    cmd = job['exec']['cmd'] + ['--progress', '--out', work.path(job['tag'] + '.crash')]
    import subprocess
    p = subprocess.run(cmd, stdout=subprocess.PIPE, stderr=subprocess.PIPE, text=True)
    last = [l for l in p.stderr.splitlines() if l.startswith('PROGRESS ')][-1:]
    d = dict(kind=job['kind'], instance=inst['name'], cfg=inst['cfg'], keys=inst['keys'], tc=inst['tc'], variant=list(job['variant']),
             crash_signal=-job['exec']['rc'], stderr=job['exec']['stderr'][-600:], record={'ret': 'process died (signal %d)' % -job['exec']['rc']},
             op={'op': 'process-crash'})
    if last:
        _, sid, opj = last[0].split(' ', 2)
        try:
            d['op'] = json.loads(opj)
            d['sid'] = int(sid)
            nstates = (job['tlc'] or {}).get('distinct', 0)
            if 0 < d['sid'] <= nstates:
                d['path'] = vlib.state_path(job['driver'], d['sid'])
        except Exception:
            pass
    return d


def describe(job, rec, jump, variant):
    inst = job['inst']
    d = dict(kind=job['kind'], instance=inst['name'], cfg=inst['cfg'], keys=inst['keys'], tc=inst['tc'],
             variant=list(variant), record=rec, pre=jump.get('obs') if jump else None)
    sid = jump.get('sid') if jump else None
    d['sid'] = sid
    d['op'] = {k: v for k, v in rec.items() if k in ('op', 'k', 'v', 'w', 'n', 'seg', 'end')}
    nstates = (job['tlc'] or {}).get('distinct', 0) if not job.get('random_only') else 0
    if inst.get('max_states'):
        nstates = min(nstates, inst['max_states'])
    if sid is not None and sid <= nstates:
        d['path'] = vlib.state_path(job['driver'], sid)
    elif job.get('hists') and os.path.exists(job['hists']):
        with open(job['hists']) as f:
            for line in f:
                h = json.loads(line)
                if h['sid'] == sid:
                    d['hist'] = h['hist']
    return d


def heap_model_check(work, tier):
    """TLC on MCRawLRUHeap: Safe / WF / Reachable / Accounted / NoLeak / Refines with panics at every user-code call point"""
    out = []
    for (cap, puts, panics, keys) in ([(1, 3, 1, 2), (2, 3, 1, 2)] if tier == 'quick' else [(1, 4, 2, 3), (2, 4, 2, 3), (3, 4, 1, 3)]):
        cfg = work.path('heap-%d-%d-%d.cfg' % (cap, puts, panics))
        vlib.write_cfg(cfg, 'MCSpec', dict(Keys=set(range(1, keys + 1)), Cap=cap, MaxPuts=puts, MaxPanics=panics),
                       invariants=['Safe', 'WF', 'Reachable', 'Accounted', 'NoLeak', 'Refines'])
        o, rc, wall = vlib.run_tlc('MCRawLRUHeap', cfg, work.dir, 'heap-%d-%d-%d' % (cap, puts, panics), workers=4, xmx='8g')
        s = vlib.tlc_summary(o)
        if rc != 0 or s['errors'] or s['distinct'] == 0:
            raise ToolError('MCRawLRUHeap failed: %s' % s['errors'])
        out.append(dict(model='RawLRUHeap', cap=cap, max_puts=puts, max_panics=panics, keys=keys, states=s['distinct'], transitions=s['generated'], wall_s=round(wall, 1)))
    # node hand-over between the two lists of SegmentedCache
    for (ca, cb, puts, panics, keys) in ([(1, 1, 3, 1, 2), (2, 1, 3, 1, 2), (1, 2, 3, 1, 2)] if tier == 'quick' else [(1, 1, 4, 2, 3), (2, 1, 4, 1, 3), (1, 2, 4, 1, 3), (2, 2, 4, 1, 3)]):
        cfg = work.path('segheap-%d-%d-%d-%d.cfg' % (ca, cb, puts, panics))
        vlib.write_cfg(cfg, 'MCSpec', dict(Keys=set(range(1, keys + 1)), CA=ca, CB=cb, MaxPuts=puts, MaxPanics=panics),
                       invariants=['Safe', 'WF', 'Reachable', 'Accounted', 'Refines'])
        o, rc, wall = vlib.run_tlc('MCSegHeap', cfg, work.dir, 'segheap-%d-%d-%d-%d' % (ca, cb, puts, panics), workers=4, xmx='8g')
        s = vlib.tlc_summary(o)
        if rc != 0 or s['errors'] or s['distinct'] == 0:
            raise ToolError('MCSegHeap failed: %s' % s['errors'])
        out.append(dict(model='SegHeap', ca=ca, cb=cb, max_puts=puts, max_panics=panics, keys=keys, states=s['distinct'], transitions=s['generated'], wall_s=round(wall, 1)))
    # TwoQueueCache: three lists over one node heap, put / get / remove as programs of the instruction machine
    for (size, q, gs, puts, panics, keys) in ([(1, 0, 1, 3, 1, 2), (2, 1, 1, 3, 1, 2)] if tier == 'quick' else [(1, 0, 1, 4, 2, 3), (2, 0, 1, 4, 1, 3), (2, 1, 2, 4, 1, 3)]):
        cfg = work.path('tqheap-%d-%d-%d-%d-%d.cfg' % (size, q, gs, puts, panics))
        vlib.write_cfg(cfg, 'MCSpec', dict(Keys=set(range(1, keys + 1)), Size=size, Q=q, GS=gs, MaxPuts=puts, MaxPanics=panics),
                       invariants=['Safe', 'WF', 'Reachable', 'Accounted', 'Refines'])
        o, rc, wall = vlib.run_tlc('MCTwoQHeap', cfg, work.dir, 'tqheap-%d-%d-%d-%d-%d' % (size, q, gs, puts, panics), workers=8, xmx='14g', timeout=3600)
        s = vlib.tlc_summary(o)
        if rc != 0 or s['errors'] or s['distinct'] == 0:
            raise ToolError('MCTwoQHeap failed: %s' % s['errors'])
        out.append(dict(model='TwoQHeap', size=size, q=q, ghost=gs, max_puts=puts, max_panics=panics, keys=keys, states=s['distinct'], transitions=s['generated'], wall_s=round(wall, 1)))
    # AdaptiveCache: four lists and p; put (incl. replace and ghost trimming) / get / remove
    for (size, puts, panics, keys) in ([(1, 3, 1, 2)] if tier == 'quick' else [(1, 4, 2, 3), (2, 4, 1, 3)]):
        cfg = work.path('archeap-%d-%d-%d.cfg' % (size, puts, panics))
        vlib.write_cfg(cfg, 'MCSpec', dict(Keys=set(range(1, keys + 1)), Size=size, MaxPuts=puts, MaxPanics=panics),
                       invariants=['Safe', 'WF', 'Reachable', 'Accounted', 'Refines'])
        o, rc, wall = vlib.run_tlc('MCArcHeap', cfg, work.dir, 'archeap-%d-%d-%d' % (size, puts, panics), workers=8, xmx='14g', timeout=3600)
        s = vlib.tlc_summary(o)
        if rc != 0 or s['errors'] or s['distinct'] == 0:
            raise ToolError('MCArcHeap failed: %s' % s['errors'])
        out.append(dict(model='ArcHeap', size=size, max_puts=puts, max_panics=panics, keys=keys, states=s['distinct'], transitions=s['generated'], wall_s=round(wall, 1)))
    # WTinyLFUCache: window RawLRU in front of a SegmentedCache, entries cross the boundary by value; admission verdict nondeterministic
    # (the admission contest needs window + main full and one more key: keys > WS + CA + CB and as many puts)
    for (ws, ca, cb, puts, panics, keys) in ([(1, 1, 1, 3, 1, 3), (1, 1, 1, 4, 0, 4)] if tier == 'quick' else [(1, 1, 1, 4, 1, 4), (1, 2, 1, 4, 0, 4), (2, 1, 1, 4, 0, 4), (1, 1, 2, 4, 0, 4)]):        # ((2,1,1) with 5 keys / 5 puts does not finish in 20 min)
        cfg = work.path('wtheap-%d-%d-%d-%d-%d.cfg' % (ws, ca, cb, puts, panics))
        vlib.write_cfg(cfg, 'MCSpec', dict(Keys=set(range(1, keys + 1)), WS=ws, CA=ca, CB=cb, MaxPuts=puts, MaxPanics=panics),
                       invariants=['Safe', 'WF', 'Reachable', 'Accounted', 'Refines', 'RetRefines'])
        o, rc, wall = vlib.run_tlc('MCWTinyHeap', cfg, work.dir, 'wtheap-%d-%d-%d-%d-%d' % (ws, ca, cb, puts, panics), workers=8, xmx='14g', timeout=3600)
        s = vlib.tlc_summary(o)
        if rc != 0 or s['errors'] or s['distinct'] == 0:
            raise ToolError('MCWTinyHeap failed: %s' % s['errors'])
        out.append(dict(model='WTinyHeap', window=ws, probationary=ca, protected=cb, max_puts=puts, max_panics=panics, keys=keys, states=s['distinct'], transitions=s['generated'], wall_s=round(wall, 1)))
    return out


def validate_shard(args):
    job, shard, prop, work, variant = args
    kd = KINDS[job['kind']]
    tag = job['tag'] + '-tv'
    out = []
    cur = shard
    if prop == 'HEAP':
        if job['kind'] == 'arc':
            module, consts = 'ArcHeapTrace', dict(Keys={1, 2, 3}, Size=job['inst']['cfg']['size'], MaxPuts=24, MaxPanics=1)
        elif job['kind'] == '2q':
            c = job['inst']['cfg']
            module, consts = 'TwoQHeapTrace', dict(Keys={1, 2, 3}, Size=c['size'], Q=c['q'], GS=c['g'], MaxPuts=24, MaxPanics=1)
        elif job['kind'] == 'wtlfu':
            c = job['inst']['cfg']
            module, consts = 'WTinyHeapTrace', dict(Keys={1, 2, 3}, WS=c['w'], CA=c['a'], CB=c['b'], MaxPuts=24, MaxPanics=1)
        elif job['kind'] == 'slru':
            module, consts = 'SegHeapTrace', dict(Keys={1, 2, 3}, CA=job['inst']['cfg']['a'], CB=job['inst']['cfg']['b'], MaxPuts=24, MaxPanics=1)
        else:
            module, consts = 'HeapTrace', dict(Keys={1, 2, 3}, Cap=job['inst']['cfg']['cap'], MaxPuts=24, MaxPanics=1)
        rej = vlib.tlc_validate(module, consts, 'HEAP', shard, work.dir, job['tag'] + '-heap')
        if rej:
            idx, rec = rej
            _, jump = vlib.read_record(shard, idx)
            d = describe(job, rec, jump, variant)
            d['evaluated_as'] = '%s (pointer-level model %s cannot explain this event)' % (module, {'slru': 'SegHeap.tla', '2q': 'TwoQHeap.tla', 'arc': 'ArcHeap.tla', 'wtlfu': 'WTinyHeap.tla'}.get(job['kind'], 'RawLRUHeap.tla'))
            d['model_drift'] = True
            out.append(d)
        return out
    for attempt in range(6):
        rej = vlib.tlc_validate(kd['trace'], job['inst']['tc'], prop, cur, work.dir, tag)
        if rej is None:
            break
        idx, rec = rej
        _, jump = vlib.read_record(cur, idx)
        out.append(describe(job, rec, jump, variant))
        nxt = cur + '.c%d' % attempt
        if vlib.cut_after(cur, idx, nxt) == 0:
            break
        cur = nxt
    return out


def run_list_prop(prop, tier, seed, only_kinds=None, harness_variant='std', collect=None, inst_limit=None):
    """collect: list to which (jobs, violations) are appended instead of writing evidence (composite checks)"""
    t0 = time.time()
    spec = LIST_PROPS[prop]
    kinds = [k for k in spec['kinds'] if not only_kinds or k in only_kinds]
    work = vlib.Work(prop + ('' if harness_variant == 'std' else '-' + harness_variant))
    try:
        binary = vlib.build_harness(harness_variant)
        variants = spec.get('variants', [('tracked', 'std')])
        jobs = []
        for vi, variant in enumerate(variants):
            for kind in kinds:
                insts = INSTANCES[kind][tier]
                if inst_limit:
                    insts = insts[:inst_limit]
                if vi > 0 and not spec.get('all_variants_full'):
                    insts = insts[:1]            # extra key-type / hasher instantiations: first instances only
                for inst in insts:
                    jobs.append(dict(kind=kind, inst=inst, variant=variant, no_random=spec.get('no_random'),
                                     quick_max_states=spec.get('quick_max_states') if tier == 'quick' else spec.get('thorough_max_states')))
            if vi == 0 and not spec.get('no_random_only') and not inst_limit:
                for ro in RANDOM_ONLY[tier]:
                    if ro['kind'] in kinds:
                        jobs.append(dict(kind=ro['kind'], inst=ro, variant=variant, random_only=True))
        if 'raw' in kinds and prop not in ('C15', 'C18') and not inst_limit and harness_variant == 'std':
            # RawLRU built WITHOUT an eviction callback (RawLRU::new / with_hasher, the common way): code gated on
            # `on_evict.is_none()` is only reached this way.  First closure instance + the random-only ones.
            extra_jobs = []
            for j in jobs:
                if j['kind'] == 'raw' and j['variant'] == ('tracked', 'std') and (j.get('random_only') or j['inst'] is INSTANCES['raw'][tier][0]):
                    extra_jobs.append(dict(j, nocb=True))
            jobs += extra_jobs
        if prop in ('C01', 'C06', 'C07', 'C10', 'C15') and not inst_limit and harness_variant == 'std' and collect is None:
            # a clone is a cache too: the clone-mode traces (clone in every state, then the same operation on both) are
            # judged with the property on BOTH observations (bounds, policy step, callbacks); first closure instance + one
            # larger random instance per cloneable type
            for k in ('raw', 'slru', 'wtlfu'):
                if k in kinds:
                    jobs.append(dict(kind=k, inst=INSTANCES[k][tier][0], variant=('tracked', 'std'), clone_mode=True,
                                     quick_max_states=400 if tier == 'quick' else 3000))
                    ro = [r for r in RANDOM_ONLY[tier] if r['kind'] == k]
                    if ro:
                        jobs.append(dict(kind=k, inst=ro[min(1, len(ro) - 1)], variant=('tracked', 'std'), random_only=True, clone_mode=True))
        if spec.get('fault_big') and not inst_limit:
            # panic injection in LARGE states: the state is reached by a seeded random history (it is the path), see exec.rs
            from instances import FAULT_BIG
            for ro in FAULT_BIG[tier]:
                if ro['kind'] in kinds:
                    jobs.append(dict(kind=ro['kind'], inst=ro, variant=('tracked', 'std'), random_only=True))
        flags = spec['flags']
        log('[%s] %d jobs, tier %s' % (prop, len(jobs), tier))
        # (D) unbounded step: Apalache proves the numeric bounds inductive on the length abstractions (all sizes)
        apa_future = None
        if prop in ('C01', 'C09') and collect is None and os.environ.get('VERIF_NO_APALACHE') is None:
            from concurrent.futures import ThreadPoolExecutor
            apa_pool = ThreadPoolExecutor(max_workers=5)
            apa_future = [apa_pool.submit(vlib.apalache_inductive, vlib.LEN_MODULES[k][0], vlib.LEN_MODULES[k][1], work.dir) for k in kinds]
            tlaps_future = [apa_pool.submit(vlib.tlaps_prove, vlib.LEN_MODULES[k][0], work.dir) for k in kinds]
        vlib.pool_map(lambda j: stage_generate(j, work, binary, flags + (['--clone', '--no-ro'] if j.get('clone_mode') else []), seed, j['variant']), jobs, 4)
        crashes = []
        for j in jobs:
            if j['exec']['rc'] != 0:
                # the harness process died on a signal (abort from a null/misaligned-pointer check, SIGSEGV on a poisoned
                # pointer, the watchdog's abort when a library call does not return): a memory-safety symptom, which the
                # memory properties claim, and an operation that did not return normally (C05); elsewhere a tool error
                if prop in ('C03', 'C18', 'C05') and j['exec']['rc'] < 0:
                    crashes.append(locate_crash(j, binary, flags, seed, work))
                    j['shards'] = []
                    continue
                raise ToolError('harness failed rc=%s on %s: %s' % (j['exec']['rc'], j['tag'], j['exec']['stderr']))
        tasks = [(j, s, prop, work, j['variant']) for j in jobs for s in j['shards']]
        heap_stats = None
        if prop in ('C18', 'C04', 'C03') and collect is None:
            # pointer-level model: (A) TLC closes RawLRUHeap with panic points; (C) HeapTrace explains the RawLRU events
            heap_stats = heap_model_check(work, tier)
            if prop in ('C18', 'C04'):
                tasks += [(j, s, 'HEAP', work, j['variant']) for j in jobs if j['kind'] in ('raw', 'slru', '2q', 'arc', 'wtlfu') and not j.get('random_only') for s in j['shards']]
        log('[%s] validating %d shards' % (prop, len(tasks)))
        res = vlib.pool_map(validate_shard, tasks, max(2, vlib.NCPU - 2))
        viols = crashes + [d for r in res for d in r]
        # An event the pointer-level model cannot explain is MODEL DRIFT, not a violation: the model pins one statement
        # order, while the properties only forbid hazards (judged by C18Event / C04Event on the same events).  It is
        # reported on stderr and in the evidence and does not change the verdict.
        drift = [d for d in viols if d.get('model_drift')]
        viols = [d for d in viols if not d.get('model_drift')]
        for d in drift[:5]:
            log('MODEL-DRIFT (not a violation): the pointer-level model cannot explain', d.get('instance'), 'path=', json.dumps(d.get('path')),
                'op=', json.dumps(d.get('op')), 'fault=', json.dumps((d.get('record') or {}).get('fault')))
        if heap_stats:
            jobs[0]['heap_model'] = dict(model_check=heap_stats, heap_trace_unexplained=len(drift), heap_trace_explained=dict(vlib.HEAP_EXPLAINED),
                                         unexplained_samples=[dict(instance=d.get('instance'), path=d.get('path'), op=d.get('op')) for d in drift[:5]])
        if collect is not None:
            for j in jobs:
                j['tag'] = j['tag'] + ('' if harness_variant == 'std' else '-' + harness_variant)
                j['samples'] = sample_records(j)
            collect.append((jobs, viols))
            return 0
        # C03 / C18, both tiers: ALL generated behaviours once more on an AddressSanitizer build (native speed)
        if prop in ('C03', 'C18') and collect is None and not os.environ.get('VERIF_NO_ASAN'):
            viols += asan_tier(prop, jobs, work)
        # thorough tier of C03 / C18: a sample of the TLC-generated behaviours is executed under Miri (the interpreter is
        # the memory monitor: uninitialised reads, out-of-bounds, use after free, leaks of the cache's own allocations)
        if prop in ('C03', 'C18') and tier == 'thorough' and not os.environ.get('VERIF_NO_MIRI'):
            viols += miri_tier(prop, jobs, work)
        if prop == 'C01' and collect is None and not os.environ.get('VERIF_NO_CTOR'):
            # the configured bounds themselves: every successful constructor / builder chain carries the capacities, quotas
            # and sample sizes it was given (Ctor.tla, Shape)
            import extra
            for hv in ('std', 'nostd'):      # (no_std: the quotas go through src/polyfill.rs' floor)
                gj, gv = extra.ctor_grid(hv, work, binary if hv == 'std' else vlib.build_harness('nostd'), prop='C01')
                gj['kind'] = 'ctor'
                for d in gv:
                    d['kind'] = None
                    d['what'] += ' shape=' + json.dumps((d.get('record') or {}).get('shape'))
                jobs.append(gj)
                viols += gv
        proofs = None
        if apa_future:
            proofs = [f.result() for f in apa_future]
            bad = [p for p in proofs if p.get('violated')]
            if bad:
                raise ToolError('Apalache found a counterexample to the inductive invariant of %s:\n%s' % (bad[0]['module'], bad[0].get('output_tail')))
            for p in proofs:
                if p['discharged'] != p['obligations']:
                    log('[%s] WARNING: Apalache did not finish on %s (recorded in the evidence; not a verdict about the code)' % (prop, p['module']))
            log('[%s] Apalache: %d inductive obligations discharged (%s)' % (prop, sum(p['discharged'] for p in proofs), ', '.join(p['module'] for p in proofs)))
            tl = [f.result() for f in tlaps_future]
            for p in tl:
                if not p['ok']:
                    log('[%s] WARNING: TLAPS did not prove %s (recorded in the evidence; Apalache is the primary discharge): %s' %
                        (prop, p['module'], (p.get('output_tail') or '')[-300:]))
            log('[%s] TLAPS: %d proof obligations proved (%s)' % (prop, sum(p['discharged'] for p in tl), ', '.join(p['module'] for p in tl)))
            proofs = proofs + tl
        return finish(prop, tier, seed, jobs, viols, t0, work, proofs)
    finally:
        work.cleanup()


def asan_tier(prop, jobs, work):
    binary, err = vlib.build_harness_asan()
    if not binary:
        log('[%s] WARNING: AddressSanitizer build of the harness failed (tier skipped, recorded in the evidence): %s' % (prop, err[-300:]))
        jobs[0]['asan'] = dict(built=False)
        return []
    flags = ['--audit', '--tok', '--drop', '--no-ro'] + (['--faults'] if prop == 'C18' else [])
    todo = [j for j in jobs if j.get('driver') and j['variant'] == ('tracked', 'std')]

    def one(j):
        extra = []
        ms = j['inst'].get('max_states')
        if j.get('quick_max_states'):
            ms = min(ms or 10**9, j['quick_max_states'])
        if j.get('random_only'):
            ms = 0
        if ms is not None:
            extra += ['--max-states', str(ms)]
        if j['inst'].get('random') and not j.get('no_random'):
            extra += ['--random', '%d,%d,%d' % (j['inst']['random'][0], j['inst']['random'][1], 4242)]
        if j['inst'].get('khtable'):
            extra += ['--khtable', json.dumps(j['inst']['khtable'])]
        return j, vlib.asan_run(binary, j['kind'], j['inst']['cfg'], j['inst']['keys'], j['driver'], flags, extra)
    res = vlib.pool_map(one, todo, max(2, vlib.NCPU - 2))
    out, tests = [], 0
    for j, r in res:
        if r['asan']:
            out.append(dict(kind=j['kind'], instance=j['inst']['name'], cfg=j['inst']['cfg'], op={'op': 'asan'}, asan=r['tail'],
                            record={'ret': 'AddressSanitizer reported a memory error'}))
        elif r['rc'] not in (0, 124):
            if r['rc'] < 0:
                out.append(dict(kind=j['kind'], instance=j['inst']['name'], cfg=j['inst']['cfg'], op={'op': 'asan-crash'}, crash_signal=-r['rc'],
                                asan=r['tail'], record={'ret': 'harness crashed under the AddressSanitizer build'}))
            else:
                # the harness itself panicked (exit 101): run it again with panic messages on to say where
                import subprocess
                msg = ''
                try:
                    p2 = subprocess.run(r.get('cmd', []), stdout=subprocess.PIPE, stderr=subprocess.PIPE, text=True, timeout=1800,
                                        env=dict(os.environ, CVH_PANIC_MSG='1', ASAN_OPTIONS='detect_leaks=0:abort_on_error=0:halt_on_error=1'))
                    msg = '\n'.join([l for l in p2.stderr.splitlines() if l.startswith('PANIC-MSG')][-3:])
                except Exception as e:
                    msg = str(e)
                raise ToolError('ASan harness run failed (rc=%s) on %s: %s %s' % (r['rc'], j['inst']['name'], r['tail'][-600:], msg))
        if r['stats']:
            tests += r['stats'].get('tests', 0)
    log('[%s] ASan tier: %d tests on the AddressSanitizer build, %d memory errors' % (prop, tests, len(out)))
    jobs[0]['asan'] = dict(built=True, tests=tests, errors=len(out), runs=len(res))
    return out


def miri_tier(prop, jobs, work, tests_per_shard=120, budget_s=900):
    shards = []
    seen = set()
    for j in jobs:
        if j.get('random_only') or not j.get('tlc') or j['variant'] != ('tracked', 'std'):
            continue
        key = (j['kind'], j['inst']['name'])
        if key in seen:
            continue
        seen.add(key)
        ops, states = vlib.select_states(j['driver'], 24 if prop == 'C03' else 6)
        if not ops or not states:
            continue
        per = max(1, tests_per_shard // max(1, len(ops)))
        for i in range(0, len(states), per):
            drv = work.path('miri-%s-%d.drv' % (j['inst']['name'], i))
            with open(drv, 'w') as f:
                f.write(json.dumps({'ops': ops}) + '\n')
                for p in states[i:i + per]:
                    f.write(json.dumps({'state': p}) + '\n')
            flags = ['--audit', '--tok', '--drop', '--no-ro'] + (['--faults'] if prop == 'C18' else [])
            shards.append(('%s-%d' % (j['inst']['name'], i), j['kind'], j['inst']['cfg'], j['inst']['keys'], drv, flags))
    shards = shards[:56]
    log('[%s] Miri tier: %d shards' % (prop, len(shards)))
    res = vlib.miri_runs(shards, work.dir, timeout=budget_s)
    out = []
    done = 0
    for r in res:
        if r['ub']:
            out.append(dict(kind=r['tag'].split('-')[0], instance=r['tag'], op={'op': 'miri'}, miri=r['tail'], cfg=None,
                            driver=open(r['driver']).read()[:20000], record={'ret': 'Miri reported undefined behaviour'}))
        elif r['rc'] not in (0, 124):
            raise ToolError('miri run failed (rc=%s): %s' % (r['rc'], r['tail']))
        if r['stats']:
            done += r['stats'].get('tests', 0)
    log('[%s] Miri tier: %d tests executed under Miri, %d with undefined behaviour, %d shards timed out' %
        (prop, done, len(out), sum(1 for r in res if r['rc'] == 124)))
    for j in jobs[:1]:
        j.setdefault('miri', dict(shards=len(shards), tests=done, ub=len(out), flags=vlib.MIRIFLAGS))
    return out


def sample_records(j, n=3):
    """a few ACTUAL cases of this run, preferring non-trivial ones: a test from a non-empty state (its jump + event) and an evicting put"""
    if not j.get('shards'):
        return None
    recs = []
    try:
        with open(j['shards'][0]) as f:
            for i, line in enumerate(f):
                if i >= 4000:
                    break
                recs.append(json.loads(line))
    except Exception:
        return None
    picked = []
    for i, r in enumerate(recs[:-1]):
        if r.get('op') == 'jump' and r.get('obs', {}).get('empty') is False and recs[i + 1].get('op') != 'jump':
            picked += [r, recs[i + 1]]
            break
    for r in recs:
        t = (r.get('ret') or {}).get('t')
        if t in ('Evicted', 'EvictedAndUpdate') or (r.get('fault') or {}).get('fired'):
            picked.append(r)
            break
    if not picked:
        # other trace formats (iterators, estimator, cost tracker): an iterator run over >= 2 entries / records from the middle
        rich = [r for r in recs if r.get('len', 0) >= 2 and r.get('word')] or [r for r in recs if (r.get('obs') or {}).get('all')]
        picked = rich[len(rich) // 2: len(rich) // 2 + 2] if rich else recs[len(recs) // 2: len(recs) // 2 + n]
    return dict(instance=j['tag'], records=picked[:4])


# anti-vacuity: event kinds ("op:result variant") that a run of the property must have exercised on the implementation
REQUIRED_EVENTS = {
    'C12': ['put:Put', 'put:Update', 'put:Evicted', 'put:EvictedAndUpdate', 'put_protected:Put', 'peek_or_put:b=Put', 'contains_or_put:b=Evicted'],
    'C13': ['peek:Some', 'peek:None', 'contains:Bool', 'peek_lru:SomeKV', 'peek_end:SomeKV', 'len:Int'],
    'C15': ['cb:nonempty', 'purge:Unit', 'resize:Int', 'remove:Some', 'remove_lru:SomeKV', 'put:Evicted', 'put:Update'],
    'C06': ['get_lru:SomeKV', 'resize:Int', 'put:Evicted', 'remove_lru:SomeKV', 'peek_mut_or_put:b=Evicted'],
    'C07': ['put_protected:Update', 'put_protected:Evicted', 'put:Evicted', 'get:Some', 'remove_lru_from:SomeKV'],
    'C08': ['put:EvictedAndUpdate', 'put:Evicted', 'put:Update', 'get:Some', 'remove:Some'],
    'C09': ['put:Update', 'put:Put', 'get:Some', 'remove:Some'],
    'C10': ['put:Evicted', 'put:Update', 'put:Put', 'get:Some', 'get:None', 'get_mut:Some'],
    'C18': ['fault:hash', 'fault:eq', 'fault:clone', 'fault:drop', 'fault:hasher', 'fault:cb', 'fault:keyhasher', 'clone_drop:Panic'],
    'C04': ['drop:?', 'purge:Unit', 'put:Evicted', 'put:EvictedAndUpdate', 'remove:Some'],
}


def finish(prop, tier, seed, jobs, viols, t0, work, proofs=None):
    new = []
    for d in viols:
        k = vlib.match_known(prop, d)
        if k:
            print('KNOWN-FINDING: property=%s %s' % (prop, k.get('what', k.get('id', ''))), flush=True)
        else:
            new.append(d)
    states = sum((j['tlc'] or {}).get('distinct', 0) for j in jobs)
    trans = sum((j['tlc'] or {}).get('generated', 0) for j in jobs)
    events = sum((j['exec']['stats'] or {}).get('events', 0) for j in jobs)
    tests = sum((j['exec']['stats'] or {}).get('tests', 0) for j in jobs)
    nontriv = sum((j['exec']['stats'] or {}).get('nontrivial', 0) for j in jobs)
    by_kind = {}
    for j in jobs:
        for k, v in ((j['exec']['stats'] or {}).get('by_kind') or {}).items():
            by_kind[k] = by_kind.get(k, 0) + v
    missing = [k for k in REQUIRED_EVENTS.get(prop, []) if by_kind.get(k, 0) == 0]
    if missing and not viols and not os.environ.get('VERIF_ALLOW_VACUOUS'):
        raise ToolError('vacuous run of %s: no event of kind(s) %s was exercised on the implementation' % (prop, missing))
    samples = []
    for j in jobs[:3]:
        sr = j.get('samples') or sample_records(j)
        if sr:
            samples.append(sr)
    coverage = dict(
        states=states, transitions=trans, traces_validated_against_impl=tests,
        evaluations=events, distinct_nontrivial=nontriv,
        rule='every reachable abstract state of each listed instance (TLC closure) x every operation of the specification '
             'alphabet is executed on the real cache and its observed (pre, event, post) is judged by the TLA+ predicate of '
             'this property; plus seeded random histories. A case is one (reached state, operation) pair, distinct by '
             'construction; non-trivial = the pre-state retained at least one entry.',
        samples=samples, exhaustive=(tier is not None),
        instances=[dict(name=j['tag'], kind=j['kind'], tlc=j['tlc'], exec=(j['exec']['stats'] or {}), shards=len(j.get('shards', [])))
                   for j in jobs],
        miri=[j['miri'] for j in jobs if j.get('miri')],
        asan=[j['asan'] for j in jobs if j.get('asan')],
        heap_model=[j['heap_model'] for j in jobs if j.get('heap_model')],
        events_by_op_and_result=by_kind,
        violations_seen=[dict(kind=d.get('kind'), instance=d.get('instance'), op=d.get('op'), path=d.get('path')) for d in viols[:20]],
    )
    if proofs:
        coverage['unbounded_step'] = dict(
            tool='apalache-mc 0.58 (SMT)', obligations=sum(p['obligations'] for p in proofs), discharged=sum(p['discharged'] for p in proofs),
            what='inductive invariant (partition bounds, 0 <= p <= size) of the integer length abstraction with the sizes SYMBOLIC; '
                 'the abstraction is tied to the list-level specification by the refinement Assert in the MC modules (checked by TLC on every transition)',
            modules=proofs)
    vlib.write_evidence(prop, tier, seed, LIST_PROPS.get(prop, {}).get('level', 'model_checking'), coverage, time.time() - t0, len(new), ASSUMPTIONS)
    for d in new[:10]:
        rp = write_replay(prop, dict(d, property=prop))
        print('VIOLATION property=%s replay=%s' % (prop, rp), flush=True)
        log('  ', d.get('kind'), d.get('instance'), 'path=', json.dumps(d.get('path')), 'op=', json.dumps(d.get('op')),
            'ret=', json.dumps(d['record'].get('ret')) if d.get('record') else None)
    log('[%s] tier=%s states=%d transitions=%d tests=%d events=%d violations=%d (%d known) %.1fs' %
        (prop, tier, states, trans, tests, events, len(new), len(viols) - len(new), time.time() - t0))
    return 1 if new else 0


def replay_list(prop, path):
    d = json.load(open(path))
    work = vlib.Work(prop + '-replay')
    try:
        binary = vlib.build_harness('std')
        kind = d['kind']
        drv = work.path('driver.ndjson')
        with open(drv, 'w') as f:
            if d.get('path') is not None:
                f.write(json.dumps({'ops': [d['op']]}) + '\n')
                f.write(json.dumps({'state': d['path']}) + '\n')
            elif d.get('hist') is not None:
                f.write(json.dumps({'hist': d['hist']}) + '\n')
            else:
                raise ToolError('replay file has neither path nor hist')
        spec = LIST_PROPS[prop]
        variant = d.get('variant') or ['tracked', 'std']
        prefix = work.path('replay.trace')
        r = vlib.harness_exec(binary, kind, d['cfg'], d['keys'], drv, prefix, flags=spec['flags'] + ['--no-ro'],
                              extra=['--keytype', variant[0], '--hasher', variant[1]])
        if r['rc'] != 0:
            print('VIOLATION property=%s replay=%s' % (prop, path))
            return 1
        for s in vlib.list_shards(prefix):
            rej = vlib.tlc_validate(KINDS[kind]['trace'], d['tc'], prop, s, work.dir, 'replay')
            if rej:
                log('reproduced at record', rej[0], json.dumps(rej[1])[:600])
                print('VIOLATION property=%s replay=%s' % (prop, path))
                return 1
        log('not reproduced')
        return 0
    finally:
        work.cleanup()


# --------------------------------------------------------------------------- C17 (cross-hasher pairs)
C17_PAIRS_ALL = [('std', 'std2', 0), ('std', 'ident', 0), ('std', 'zero', 0), ('std', 'fnv', 0), ('std', 'std', 77)]
C17_PAIRS_QUICK = [('std', 'std2', 0), ('std', 'zero', 0), ('std', 'std', 77)]


def run_c17(tier, seed, replay=None):
    prop = 'C17'
    C17_PAIRS = C17_PAIRS_QUICK if tier == 'quick' else C17_PAIRS_ALL
    t0 = time.time()
    work = vlib.Work(prop)
    try:
        binary = vlib.build_harness('std')
        jobs = []
        for kind in ALL_KINDS:
            insts = INSTANCES[kind][tier]
            insts = insts[:2] if tier == 'quick' else insts
            for inst in insts:
                jobs.append(dict(kind=kind, inst=inst, variant=('tracked', 'std')))
        # larger scopes: the same seeded random histories (no closure) under every hasher of the pairs
        # (the pair traces are kept on disk until compared: in the thorough tier only the instances with sizes <= 48 and
        # shortened histories, or the work directory grows past 100 GB)
        big = [ro for ro in RANDOM_ONLY[tier] if 16 <= max(v for k, v in ro['cfg'].items() if k != 'samples') <= 48]
        if tier != 'quick':
            big = [dict(ro, random=(min(ro['random'][0], 12), min(ro['random'][1], 2000))) for ro in big]
        per_kind = {}
        for ro in big:
            per_kind.setdefault(ro['kind'], []).append(ro)
        for kind_, ros in per_kind.items():
            for ro in ros[:2 if tier == 'quick' else 3]:
                jobs.append(dict(kind=ro['kind'], inst=ro, variant=('tracked', 'std'), random_only=True))
        runs = sorted({(h, 0) for p in C17_PAIRS for h in p[:2]} | {(p[1], p[2]) for p in C17_PAIRS})

        def gen(job):
            kd = KINDS[job['kind']]
            inst = job['inst']
            job['tag'] = inst['name']
            if job.get('random_only'):
                drv, st = vlib.tlc_ops_only(kd['mc'], inst['mc'], work.dir, inst['name'] + '-ops'), None
            else:
                drv, st = vlib.tlc_model_check(kd['mc'], inst['mc'], work.dir, inst['name'] + '-mc', emit=True)
            job['tlc'], job['driver'], job['runs'] = st, drv, {}
            modes = [('', [])]
            if job['kind'] in ('raw', 'slru', 'wtlfu'):
                # the same drivers with a clone taken in every state (clone must not consult hash-map iteration order)
                modes.append(('c', ['--clone', '--no-ro']))
            for (h, shuffle) in runs:
              for (mname, mflags) in modes:
                extra = ['--hasher', h, '--tok'] + mflags
                ms = inst.get('max_states')
                if tier == 'quick':
                    ms = min(ms or 10**9, 1200)
                else:
                    ms = min(ms or 10**9, 5000)        # (every run is kept on disk until its pair is compared)
                if job.get('random_only'):
                    extra += ['--max-states', '0']
                elif ms:
                    extra += ['--max-states', str(ms)]
                if inst.get('random'):
                    extra += ['--random', '%d,%d,%d' % (inst['random'][0], inst['random'][1], seed + 1)]
                if shuffle:
                    extra += ['--shuffle', str(shuffle)]
                if mname and tier == 'quick' and not job.get('random_only'):
                    extra += ['--max-states', '400']       # (a later --max-states overrides an earlier one)
                prefix = work.path('%s.%s%d%s.trace' % (inst['name'], h, shuffle, mname))
                r = vlib.harness_exec(binary, job['kind'], inst['cfg'], inst['keys'], drv, prefix, flags=[], extra=extra, shard=15000)
                if r['rc'] != 0:
                    raise ToolError('harness failed on %s: %s' % (inst['name'], r['stderr']))
                job['runs'][(h, shuffle, mname)] = dict(prefix=prefix, shards=vlib.list_shards(prefix), exec=r)
            job['modes'] = [m for m, _ in modes]
            job['exec'] = job['runs'][('std', 0, '')]['exec']
            job['shards'] = job['runs'][('std', 0, '')]['shards']
            return job
        vlib.pool_map(gen, jobs, 4)
        cfg = work.path('pair.cfg')
        vlib.write_cfg(cfg, 'TSpec', {}, post='Accepted')
        tasks = []
        for j in jobs:
            for (a, b, sh, mname) in [(a, b, sh, m) for (a, b, sh) in C17_PAIRS for m in j['modes']]:
                ra, rb = j['runs'][(a, 0, mname)], j['runs'][(b, sh, mname)]
                n = max(len(ra['shards']), len(rb['shards']))
                for i in range(n):
                    tasks.append((j, a, b, sh, ra['shards'][i] if i < len(ra['shards']) else None,
                                  rb['shards'][i] if i < len(rb['shards']) else None))

        def val(t):
            j, a, b, sh, sa, sb = t
            if sa is None or sb is None:
                return [dict(kind=j['kind'], instance=j['inst']['name'], cfg=j['inst']['cfg'], op={'op': 'shard-count-mismatch'}, pair=[a, b, sh])]
            env = {'TRACE': sa, 'TRACE2': sb}
            out, rc, wall = vlib.run_tlc('PairTrace', cfg, work.dir, 'pair-%s-%s%d-%s' % (j['inst']['name'], b, sh, os.path.basename(sa)),
                                         workers=1, env=env, timeout=1800, xmx='3g')
            rej, ok = None, False
            for line in open(out, errors='replace'):
                m = vlib.RE_REJECT.match(line)
                if m:
                    rej = (int(m.group(1)), json.loads(json.loads('"%s"' % m.group(2))))
                if 'Model checking completed. No error has been found' in line:
                    ok = True
            if rej:
                idx, rec = rej
                _, jump = vlib.read_record(sa, idx)
                recb, _ = vlib.read_record(sb, idx)
                d = describe(j, rec, jump, ('tracked', a))
                d['pair'] = [a, b, sh]
                d['other_record'] = recb
                return [d]
            if not ok:
                raise ToolError('PairTrace gave no verdict: ' + out)
            os.remove(out)
            return []
        res = vlib.pool_map(val, tasks, max(2, vlib.NCPU - 2))
        viols = [d for r in res for d in r]
        # construction from ordered collections is part of the history too: its order must not depend on a hash map
        import extra
        gj, gv = extra.ctor_grid('std', work, binary, prop='C17')
        gj['kind'] = 'ctor'
        for d in gv:
            d['kind'] = None
        jobs.append(gj)
        viols += gv
        return finish(prop, tier, seed, jobs, viols, t0, work)
    finally:
        work.cleanup()


# --------------------------------------------------------------------------- main
def main(argv):
    ap = argparse.ArgumentParser()
    ap.add_argument('prop')
    ap.add_argument('--tier', default=os.environ.get('VERIF_TIER', 'quick'))
    ap.add_argument('--replay')
    ap.add_argument('--kinds')
    a = ap.parse_args(argv)
    seed = int(os.environ.get('VERIF_SEED', '1'))
    tier = a.tier if a.tier in ('quick', 'thorough') else 'quick'
    try:
        import extra
        if a.prop in extra.CHECKS:
            return extra.CHECKS[a.prop](tier, seed, a.replay)
        if a.prop in LIST_PROPS:
            if a.replay:
                return replay_list(a.prop, a.replay)
            return run_list_prop(a.prop, tier, seed, a.kinds.split(',') if a.kinds else None)
        if a.prop == 'C17':
            return run_c17(tier, seed, a.replay)
        import extra
        if a.prop in extra.CHECKS:
            return extra.CHECKS[a.prop](tier, seed, a.replay)
        log('unknown property', a.prop)
        return 2
    except ToolError as e:
        log('TOOL ERROR:', e)
        return 2
    except Exception:
        traceback.print_exc()
        return 2
