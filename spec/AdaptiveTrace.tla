--------------------------- MODULE AdaptiveTrace ---------------------------
EXTENDS Adaptive, Props, Json, IOUtils
Rec == ndJsonDeserialize(IOEnv.TRACE)
PROP == IOEnv.PROP
VARIABLES l, base, cur
tvars == <<l, base, cur>>

(* Trace validation of the real AdaptiveCache against Adaptive.tla; see TraceCore.tla. *)
StOf(o) == [t1 |-> o.t1, t2 |-> o.t2, b1 |-> o.b1, b2 |-> o.b2, p |-> o.p]
FullState(o) == <<StOf(o), o.cap>>
OV(o) == ObsView(<<o.t1, o.t2, o.b1, o.b2>>, ARes, ABounds, Size, o)
TokOf(o) == <<o.tok.t1, o.tok.t2, o.tok.b1, o.tok.b2>>
SpecOps == {"put", "get", "get_mut", "peek", "peek_mut", "contains", "remove", "purge", "len", "cap", "is_empty"}
ReadOnlyOps == AReadOnly \cup {"peek_mut", "debug"}
\* the public accessors agree with the lists they describe, and 0 <= p <= size
AccessorsOK(o) ==
  /\ o.t1_len = Len(o.t1) /\ o.t2_len = Len(o.t2) /\ o.b1_len = Len(o.b1) /\ o.b2_len = Len(o.b2)
  /\ o.p >= 0 /\ o.p <= Size
\* C09: the implementation's step is the specification's step
PolicyStep(pre, ev) ==
  IF ev.panic THEN FALSE
  ELSE IF ~AWellFormed(StOf(pre)) THEN TRUE      \* reported where the malformed state was produced
  ELSE /\ ev.obs.p >= 0 /\ ev.obs.p <= Size
       /\ IF ev.op \in SpecOps
          THEN LET x == AApply(ev, StOf(pre)) IN x.st = StOf(ev.obs) /\ x.ret = ev.ret
          ELSE StOf(ev.obs) = StOf(pre)

\* predicates shared by all cache types, selected by PROP; policy property id: C09
Generic(pre, ev) ==
  CASE PROP = "C01" -> ev.panic \/ ev.op = "drop" \/ (C01View(OV(ev.obs)) /\ AccessorsOK(ev.obs))
    [] PROP = "C02" -> ev.panic \/ ev.op = "drop" \/ C02Step(OV(pre), ev, OV(ev.obs))
    [] PROP = "C03" -> ev.panic \/ ev.op = "drop" \/ (C03Audit(ev.obs) /\ ev.anomalies = <<>>)
    [] PROP = "C04" -> ev.panic \/ C04Event(TokOf(pre), ev, IF ev.op = "drop" THEN <<>> ELSE TokOf(ev.obs))
    [] PROP = "C05" -> ~ev.panic
    [] PROP = "C12" -> ev.panic \/ ev.op = "drop" \/ ~IsPutResult(EvPR(ev))
                         \/ C12Put(OV(pre), ev.k, ev.v, EvPR(ev), OV(ev.obs), TRUE)
    [] PROP = "C13" -> ev.panic \/ ev.op = "drop" \/
                         (ev.obs.stable /\ (ev.op \in ReadOnlyOps /\ ~HasW(ev) => FullState(ev.obs) = FullState(pre)))
    [] PROP = "C09" -> ev.op = "drop" \/ PolicyStep(pre, ev)
JumpOK(ev) ==
  /\ (PROP = "C03" => C03Audit(ev.obs) /\ ev.anomalies = <<>>)
  /\ (PROP = "C01" => C01View(OV(ev.obs)) /\ AccessorsOK(ev.obs))
  /\ (PROP = "C04" => C04Distinct(TokOf(ev.obs)) /\ ev.anomalies = <<>>)
Check(pre, ev) == Generic(pre, ev)

TInit == l = 1 /\ base = [none |-> TRUE] /\ cur = [none |-> TRUE]
Step ==
  /\ l <= Len(Rec)
  /\ l' = l + 1
  /\ LET ev == Rec[l] IN
     IF ev.op = "jump"
     THEN /\ base' = ev.obs /\ cur' = ev.obs
          /\ JumpOK(ev)
     ELSE LET pre == IF ev.chain THEN cur ELSE base IN
          /\ Check(pre, ev)
          /\ base' = base
          /\ cur' = IF ev.panic \/ ev.op = "drop" THEN pre ELSE ev.obs
TSpec == TInit /\ [][Step]_tvars
Accepted ==
  LET d == TLCGet("stats").diameter IN
  IF d - 1 = Len(Rec) THEN TRUE
  ELSE PrintT(<<"REJECT", d, ToJson(Rec[d])>>) /\ FALSE
=============================================================================
