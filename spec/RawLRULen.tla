----------------------------- MODULE RawLRULen -----------------------------
(* Integer length abstraction of RawLRU.tla: number of entries n and capacity c (resize may set c to any value >= 0). *)
EXTENDS Integers
VARIABLES
  \* @type: Int;
  n,
  \* @type: Int;
  c
NextRel(x, k, xn, kn) ==
  \/ xn = x /\ kn = k                                               \* hits, misses, reads, put at capacity (recycles the LRU node), cap 0 hand-back
  \/ x < k /\ xn = x + 1 /\ kn = k                                  \* put of a new key with room
  \/ x > 0 /\ xn = x - 1 /\ kn = k                                  \* remove / remove_lru
  \/ xn = 0 /\ kn = k                                               \* purge
  \/ kn \in Nat /\ xn = (IF x > kn THEN kn ELSE x)                 \* resize to any capacity kn
Init == n = 0 /\ c \in Nat /\ c >= 1
Next == NextRel(n, c, n', c')
IndInv == n >= 0 /\ c >= 0 /\ n <= c
IndInit == n \in Int /\ c \in Int /\ IndInv
=============================================================================
