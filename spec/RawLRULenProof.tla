------------------------- MODULE RawLRULenProof -------------------------
(* TLAPS proof that IndInv is an inductive invariant of RawLRULen: a second, independent discharge of the     *)
(* Apalache result, for every value of the size constants.                                             *)
EXTENDS RawLRULen, TLAPS
vars == <<n, c>>
TypeOK == n \in Int /\ c \in Int
THEOREM InitInv == Init => IndInv /\ TypeOK
  BY DEF Init, IndInv, TypeOK
THEOREM StepInv == IndInv /\ TypeOK /\ Next => IndInv' /\ TypeOK'
  BY DEF IndInv, TypeOK, Next, NextRel
THEOREM Safety == Init /\ [][Next]_vars => [](IndInv /\ TypeOK)
  <1>1. Init => IndInv /\ TypeOK BY InitInv
  <1>2. (IndInv /\ TypeOK) /\ [Next]_vars => (IndInv /\ TypeOK)'
    BY StepInv DEF vars, IndInv, TypeOK
  <1>. QED BY <1>1, <1>2, PTL
=============================================================================
