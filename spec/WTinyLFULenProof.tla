------------------------- MODULE WTinyLFULenProof -------------------------
(* TLAPS proof that IndInv is an inductive invariant of WTinyLFULen: a second, independent discharge of the     *)
(* Apalache result, for every value of the size constants.                                             *)
EXTENDS WTinyLFULen, TLAPS
ASSUME ConstAssump == CW \in Nat /\ CW >= 1 /\ CA \in Nat /\ CA >= 1 /\ CB \in Nat /\ CB >= 1
vars == <<w, a, b>>
TypeOK == w \in Int /\ a \in Int /\ b \in Int
THEOREM InitInv == Init => IndInv /\ TypeOK
  BY ConstAssump DEF Init, IndInv, TypeOK
THEOREM StepInv == IndInv /\ TypeOK /\ Next => IndInv' /\ TypeOK'
  BY ConstAssump DEF IndInv, TypeOK, Next, NextRel, MainNew
THEOREM Safety == Init /\ [][Next]_vars => [](IndInv /\ TypeOK)
  <1>1. Init => IndInv /\ TypeOK BY InitInv
  <1>2. (IndInv /\ TypeOK) /\ [Next]_vars => (IndInv /\ TypeOK)'
    BY StepInv DEF vars, IndInv, TypeOK
  <1>. QED BY <1>1, <1>2, PTL
=============================================================================
