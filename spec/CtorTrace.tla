----------------------------- MODULE CtorTrace -----------------------------
(* Trace validation of the constructor grid: every recorded outcome is acceptable (C05). *)
EXTENDS Ctor, TLC, Json, IOUtils
Rec == ndJsonDeserialize(IOEnv.TRACE)
VARIABLES l
TInit == l = 1
PROP == IOEnv.PROP
Step == /\ l <= Len(Rec) /\ l' = l + 1
        /\ IF PROP = "C05" THEN Rec[l].outcome \in Accept(Rec[l].call)
           ELSE IF PROP = "C01" THEN (Rec[l].outcome = "Ok" => ShapeOK(Rec[l].call, Rec[l].shape))
           ELSE \* C06 / C17: recency order of a cache built from an ordered source
                (IF Rec[l].outcome = "Ok" THEN OrderOK(Rec[l].call, Rec[l].order, Rec[l].cap) ELSE TRUE)
TSpec == TInit /\ [][Step]_l
Accepted ==
  LET d == TLCGet("stats").diameter IN
  IF d - 1 = Len(Rec) THEN TRUE
  ELSE PrintT(<<"REJECT", d, ToJson(Rec[d])>>) /\ FALSE
=============================================================================
