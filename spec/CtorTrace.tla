----------------------------- MODULE CtorTrace -----------------------------
(* Trace validation of the constructor grid: every recorded outcome is acceptable (C05). *)
EXTENDS Ctor, TLC, Json, IOUtils
Rec == ndJsonDeserialize(IOEnv.TRACE)
VARIABLES l
TInit == l = 1
PROP == IOEnv.PROP
Step == /\ l <= Len(Rec) /\ l' = l + 1
        /\ IF PROP = "C05" THEN Rec[l].outcome \in Accept(Rec[l].call)
           ELSE IF PROP = "C20" THEN \* every SampledLFU constructor carries its budget and its sample size
                ((Rec[l].outcome = "Ok" /\ Rec[l].call.c \in SampledCalls) => ShapeOK(Rec[l].call, Rec[l].shape))
           ELSE IF PROP = "C01" THEN \* (an Ok that the grid does not accept at all is C05's finding; Shape is defined for acceptable calls)
                ((Rec[l].outcome = "Ok" /\ "Ok" \in Accept(Rec[l].call)) => ShapeOK(Rec[l].call, Rec[l].shape))
           ELSE \* C06 / C17: recency order of a cache built from an ordered source; and (C17) what a construction carries
                \* does not depend on WHICH hashers were supplied: the calls that supply hashers build the shape the grid
                \* defines without reference to any hasher
                /\ (IF Rec[l].outcome = "Ok" THEN OrderOK(Rec[l].call, Rec[l].order, Rec[l].cap) ELSE TRUE)
                /\ ((Rec[l].outcome = "Ok" /\ "Ok" \in Accept(Rec[l].call) /\ Rec[l].call.c \in HasherCalls)
                      => ShapeOK(Rec[l].call, Rec[l].shape))
TSpec == TInit /\ [][Step]_l
Accepted ==
  LET d == TLCGet("stats").diameter IN
  IF d - 1 = Len(Rec) THEN TRUE
  ELSE PrintT(<<"REJECT", d, ToJson(Rec[d])>>) /\ FALSE
=============================================================================
