----------------------------- MODULE CtorTrace -----------------------------
(* Trace validation of the constructor grid: every recorded outcome is acceptable (C05). *)
EXTENDS Ctor, TLC, Json, IOUtils
Rec == ndJsonDeserialize(IOEnv.TRACE)
VARIABLES l
TInit == l = 1
Step == /\ l <= Len(Rec) /\ l' = l + 1
        /\ Rec[l].outcome \in Accept(Rec[l].call)
TSpec == TInit /\ [][Step]_l
Accepted ==
  LET d == TLCGet("stats").diameter IN
  IF d - 1 = Len(Rec) THEN TRUE
  ELSE PrintT(<<"REJECT", d, ToJson(Rec[d])>>) /\ FALSE
=============================================================================
