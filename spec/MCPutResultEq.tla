--------------------------- MODULE MCPutResultEq ---------------------------
EXTENDS PutResultEq, FiniteSets, TLC, Json
VARIABLES done
Init == done = FALSE
Next == /\ ~done /\ done' = TRUE
        /\ Cardinality(Values) = 15
        /\ \A a \in Values : \A b \in Values : PrintT(<<"PAIR", ToJson([a |-> a, b |-> b])>>)
Spec == Init /\ [][Next]_done
=============================================================================
