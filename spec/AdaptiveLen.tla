---------------------------- MODULE AdaptiveLen ----------------------------
(***************************************************************************)
(* Integer LENGTH ABSTRACTION of Adaptive.tla for the unbounded part of    *)
(* C01/C09: the lengths of the four ARC lists and p evolve independently   *)
(* of key identity.  C (the cache size) is left symbolic; Apalache proves  *)
(*     Init => IndInv        and       IndInv /\ Next => IndInv'           *)
(* for EVERY C >= 1 (bin/check C09, C01).  The abstraction is tied to the  *)
(* list-level specification by TLC: MCAdaptive checks that the lengths of  *)
(* every list-level step satisfy NextRel (refinement), and the list-level  *)
(* specification is tied to the code by trace validation.                  *)
(* Which list a key is found in, and the adaptation delta (any d >= 1),    *)
(* are nondeterministic here.                                              *)
(***************************************************************************)
EXTENDS Integers
CONSTANT
  \* @type: Int;
  C
VARIABLES
  \* @type: Int;
  t1,
  \* @type: Int;
  t2,
  \* @type: Int;
  b1,
  \* @type: Int;
  b2,
  \* @type: Int;
  p

ConstInit == C \in Nat /\ C >= 1
Min(a, b) == IF a < b THEN a ELSE b
PushCapLen(n) == IF n >= C THEN n ELSE n + 1      \* a ghost list of capacity C receives a victim

\* replace(b2hit) with the required fallback, as a relation on (t1,t2,b1,b2)
ReplaceRel(b2hit, a1, a2, g1, g2, q, a1n, a2n, g1n, g2n) ==
  IF a1 > 0 /\ (a1 > q \/ (a1 = q /\ b2hit))
  THEN a1n = a1 - 1 /\ a2n = a2 /\ g1n = PushCapLen(g1) /\ g2n = g2
  ELSE IF a2 > 0
  THEN a1n = a1 /\ a2n = a2 - 1 /\ g1n = g1 /\ g2n = PushCapLen(g2)
  ELSE IF a1 > 0
  THEN a1n = a1 - 1 /\ a2n = a2 /\ g1n = PushCapLen(g1) /\ g2n = g2
  ELSE a1n = a1 /\ a2n = a2 /\ g1n = g1 /\ g2n = g2
\* "make room if full, then" as a relation
RoomRel(b2hit, a1, a2, g1, g2, q, a1n, a2n, g1n, g2n) ==
  IF a1 + a2 >= C THEN ReplaceRel(b2hit, a1, a2, g1, g2, q, a1n, a2n, g1n, g2n)
  ELSE a1n = a1 /\ a2n = a2 /\ g1n = g1 /\ g2n = g2

NextRel(x1, x2, y1, y2, q, x1n, x2n, y1n, y2n, qn) ==
  \/ \* put/get hit in t1: promotion
     x1 > 0 /\ x1n = x1 - 1 /\ x2n = x2 + 1 /\ y1n = y1 /\ y2n = y2 /\ qn = q
  \/ \* hit in t2, miss of a read, peek...: nothing changes
     x1n = x1 /\ x2n = x2 /\ y1n = y1 /\ y2n = y2 /\ qn = q
  \/ \* put on a recent-ghost: p grows (capped), ghost leaves b1, room is made, key enters t2
     /\ y1 > 0
     /\ \E d \in 1..C : qn = Min(C, q + d)
     /\ \E m1, m2, h1, h2 \in 0..C :
          /\ RoomRel(FALSE, x1, x2, y1 - 1, y2, qn, m1, m2, h1, h2)
          /\ x1n = m1 /\ x2n = m2 + 1 /\ y1n = h1 /\ y2n = h2
  \/ \* put on a frequent-ghost: p shrinks (floored), ghost leaves b2, room is made, key enters t2
     /\ y2 > 0
     /\ \E d \in 1..C : qn = (IF d >= q THEN 0 ELSE q - d)
     /\ \E m1, m2, h1, h2 \in 0..C :
          /\ RoomRel(TRUE, x1, x2, y1, y2 - 1, qn, m1, m2, h1, h2)
          /\ x1n = m1 /\ x2n = m2 + 1 /\ y1n = h1 /\ y2n = h2
  \/ \* put of a new key: room is made, ghost lists trimmed (lengths measured BEFORE), key enters t1
     /\ qn = q
     /\ \E m1, m2, h1, h2 \in 0..C :
          /\ RoomRel(FALSE, x1, x2, y1, y2, q, m1, m2, h1, h2)
          /\ x1n = m1 + 1 /\ x2n = m2
          /\ y1n = (IF y1 > C - q /\ h1 > 0 THEN h1 - 1 ELSE h1)
          /\ y2n = (IF y2 > q /\ h2 > 0 THEN h2 - 1 ELSE h2)
  \/ \* remove from one of the four lists
     /\ qn = q
     /\ \/ x1 > 0 /\ x1n = x1 - 1 /\ x2n = x2 /\ y1n = y1 /\ y2n = y2
        \/ x2 > 0 /\ x1n = x1 /\ x2n = x2 - 1 /\ y1n = y1 /\ y2n = y2
        \/ y1 > 0 /\ x1n = x1 /\ x2n = x2 /\ y1n = y1 - 1 /\ y2n = y2
        \/ y2 > 0 /\ x1n = x1 /\ x2n = x2 /\ y1n = y1 /\ y2n = y2 - 1
  \/ \* purge (p survives)
     x1n = 0 /\ x2n = 0 /\ y1n = 0 /\ y2n = 0 /\ qn = q

Init == t1 = 0 /\ t2 = 0 /\ b1 = 0 /\ b2 = 0 /\ p = 0
Next == NextRel(t1, t2, b1, b2, p, t1', t2', b1', b2', p')
IndInv ==
  /\ t1 >= 0 /\ t2 >= 0 /\ b1 >= 0 /\ b2 >= 0
  /\ t1 + t2 <= C /\ b1 <= C /\ b2 <= C
  /\ p >= 0 /\ p <= C
IndInit == /\ t1 \in Int /\ t2 \in Int /\ b1 \in Int /\ b2 \in Int /\ p \in Int /\ IndInv
=============================================================================
