---------------------------- MODULE TinyLFUTrace ----------------------------
(***************************************************************************)
(* Trace validation of the real TinyLFU against TinyLFU.tla (C11).         *)
(* Observation o: est[k], esth[k] (estimate / estimate_hashed_key),        *)
(* dk[k], dkh[k] (contains / contains_hash), w, samples, cmp[a][b] = bit   *)
(* mask of lt(1) le(2) gt(4) ge(8) eq(16) answered by the real helpers.    *)
(* Monitor variables (chained histories): ex = abstract estimator with the *)
(* EXACT aged counts, ever = keys recorded since construction/clear;       *)
(* both are re-initialised to "unknown" at a jump.                         *)
(***************************************************************************)
EXTENDS TinyLFU, Json, IOUtils, TLC
Rec == ndJsonDeserialize(IOEnv.TRACE)
PROP == IOEnv.PROP
VARIABLES l, base, cur, ex, known, ever
tvars == <<l, base, cur, ex, known, ever>>

Mask(a, b) == (IF a < b THEN 1 ELSE 0) + (IF a <= b THEN 2 ELSE 0) + (IF a > b THEN 4 ELSE 0)
              + (IF a >= b THEN 8 ELSE 0) + (IF a = b THEN 16 ELSE 0)
\* every observed state: bounds, the two API flavours agree, the comparison helpers order as the estimates do
ViewOK(o) ==
  /\ EstBounds(o.est)
  /\ o.esth = o.est /\ o.dkh = o.dk
  /\ o.w >= 0 /\ o.w < o.samples
  /\ \A a \in 1..Len(o.cmp) : \A b \in 1..Len(o.cmp) : o.cmp[a][b] = Mask(o.est[a], o.est[b])   \* keys recorded BY KEY come first
  /\ \A k \in OKeys(o) : o.dk[k] => o.est[k] >= 1
StepOK(pre, ev) ==
  CASE ev.op \in {"increment", "increment_hashed"} -> ObsIncrement(pre, ev.obs, ev.k)
    [] ev.op = "increment_keys" -> ObsIncrementKeys(pre, ev.obs, ev.ks)
    [] ev.op = "try_reset" -> ObsTryReset(pre, ev.obs)
    [] ev.op = "clear" -> ObsClear(ev.obs)
    [] OTHER -> ObsUnchanged(pre, ev.obs)
\* the exact-count monitor: never under-count; exact while a single key was ever recorded;
\* the doorkeeper does not forget
\* keys recorded by an operation (they stay "ever recorded" until clear, whatever ageing does)
Recorded(ev) == CASE ev.op \in {"increment", "increment_hashed"} -> {ev.k}
                  [] ev.op = "increment_keys" -> {ev.ks[i] : i \in 1..Len(ev.ks)}
                  [] OTHER -> {}
MonitorOK(e, everSet, o) ==
  \A k \in OKeys(o) :
     /\ o.est[k] >= Exact(e, k)
     /\ (k \in e.dk => o.dk[k])
     /\ (everSet \subseteq {k} => o.est[k] = Exact(e, k))
C16Same(o1, o2) == o1.est = o2.est /\ o1.dk = o2.dk /\ o1.w = o2.w /\ o1.cmp = o2.cmp /\ o1.sketch = o2.sketch
Check(pre, ev) ==
  IF PROP = "C05" THEN ~ev.panic
  ELSE IF ev.panic THEN TRUE
  ELSE IF PROP = "C16" THEN
       CASE ev.op = "clone" -> C16Same(ev.obs, ev.obs2) /\ C16Same(ev.obs, pre)
         [] ev.op = "both" -> C16Same(ev.obs, ev.obs2)
         [] ev.op \in {"clone_only", "clone_dropped"} -> C16Same(ev.obs, pre)
         [] OTHER -> TRUE
  ELSE IF PROP = "C13" THEN (IF ev.op \in {"ro", "estimate", "contains", "cmp"} THEN ObsUnchanged(pre, ev.obs) /\ ev.obs.sketch = pre.sketch ELSE TRUE)
  ELSE ViewOK(ev.obs) /\ StepOK(pre, ev)

TInit == l = 1 /\ base = [none |-> TRUE] /\ cur = [none |-> TRUE] /\ ex = [none |-> TRUE] /\ known = FALSE /\ ever = {}
AbsOp(ev) == IF ev.op = "increment_hashed" THEN [op |-> "increment", k |-> ev.k] ELSE ev
Step ==
  /\ l <= Len(Rec)
  /\ l' = l + 1
  /\ LET ev == Rec[l] IN
     IF ev.op = "jump"
     THEN /\ base' = ev.obs /\ cur' = ev.obs
          /\ (IF PROP \in {"C11"} /\ "broken" \notin DOMAIN ev THEN ViewOK(ev.obs) ELSE TRUE)
          \* a fresh estimator (nothing recorded yet) starts the exact monitor
          /\ IF "fresh" \in DOMAIN ev /\ ev.fresh /\ "broken" \notin DOMAIN ev
             THEN ex' = TLInit(OKeys(ev.obs)) /\ known' = TRUE /\ ever' = {}
             ELSE ex' = ex /\ known' = FALSE /\ ever' = {}
     ELSE LET pre == IF ev.chain THEN cur ELSE base IN
          /\ Check(pre, ev)
          /\ base' = base
          /\ cur' = IF ev.panic THEN pre ELSE ev.obs
          /\ IF known /\ ev.chain /\ ~ev.panic /\ ev.op \notin {"clone", "both", "clone_only", "clone_dropped"}
             THEN LET e2 == TApply(AbsOp(ev), ex, ev.obs.samples)
                      ev2 == IF ev.op = "clear" THEN {} ELSE ever \cup Recorded(ev)
                  IN /\ ex' = e2 /\ known' = TRUE /\ ever' = ev2
                     /\ (IF PROP = "C11" THEN MonitorOK(e2, ev2, ev.obs) ELSE TRUE)
             ELSE ex' = ex /\ known' = (known /\ ev.chain) /\ ever' = ever
TSpec == TInit /\ [][Step]_tvars
Accepted ==
  LET d == TLCGet("stats").diameter IN
  IF d - 1 = Len(Rec) THEN TRUE
  ELSE PrintT(<<"REJECT", d, ToJson(Rec[d])>>) /\ FALSE
=============================================================================
