------------------------- MODULE SegmentedLenProof -------------------------
(* TLAPS proof that IndInv is an inductive invariant of SegmentedLen (second, independent discharge   *)
(* of the Apalache result, for every pair of capacities).                                             *)
EXTENDS SegmentedLen, TLAPS
ASSUME ConstAssump == CA \in Nat /\ CB \in Nat /\ CA >= 1 /\ CB >= 1
vars == <<a, b>>
TypeOK == a \in Int /\ b \in Int
THEOREM InitInv == Init => IndInv /\ TypeOK
  BY ConstAssump DEF Init, IndInv, TypeOK
THEOREM StepInv == IndInv /\ TypeOK /\ Next => IndInv' /\ TypeOK'
  BY ConstAssump DEF IndInv, TypeOK, Next, NextRel
THEOREM Safety == Init /\ [][Next]_vars => [](IndInv /\ TypeOK)
  <1>1. Init => IndInv /\ TypeOK BY InitInv
  <1>2. (IndInv /\ TypeOK) /\ [Next]_vars => (IndInv /\ TypeOK)'
    BY StepInv DEF vars, IndInv, TypeOK
  <1>. QED BY <1>1, <1>2, PTL
=============================================================================
