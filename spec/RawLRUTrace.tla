--------------------------- MODULE RawLRUTrace ---------------------------
EXTENDS RawLRU, Props, Json, IOUtils
Rec == ndJsonDeserialize(IOEnv.TRACE)
PROP == IOEnv.PROP
VARIABLES l, base, cur
tvars == <<l, base, cur>>

(* Trace validation of the real RawLRU against RawLRU.tla; see TraceCore.tla. *)
StOf(o) == [list |-> o.list, cap |-> o.cap]
FullState(o) == StOf(o)
OV(o) == ObsView(<<o.list>>, RRes, <<o.cap>>, o.cap, o)
TokOf(o) == <<o.tok.list>>
SpecOps == {"put", "get", "get_mut", "peek", "peek_mut", "contains", "remove", "remove_lru", "purge", "resize",
            "get_lru", "get_lru_mut", "get_mru", "get_mru_mut", "peek_mru", "peek_mru_mut", "peek_lru",
            "peek_lru_mut", "peek_or_put", "peek_mut_or_put", "contains_or_put", "len", "cap", "is_empty"}
ReadOnlyOps == RReadOnlyOps \cup {"peek_mut", "peek_lru_mut", "peek_mru_mut", "get_mru_mut", "debug"}
AccessorsOK(o) == TRUE
\* C06: the implementation's step is the specification's step (recency order, victim, resize)
PolicyStep(pre, ev) ==
  IF ev.panic THEN FALSE
  ELSE IF ~RWellFormed(StOf(pre)) THEN TRUE
  \* clone mode (C16 traces judged under the policy property): the copy is in the same abstract state and follows the policy
  ELSE IF ev.op = "clone" THEN ("unsupported" \in DOMAIN ev) \/ (StOf(ev.obs) = StOf(pre) /\ StOf(ev.obs2) = StOf(pre))
  ELSE IF ev.op = "both"
       THEN LET e2 == [ev EXCEPT !.op = ev.op2] IN
            IF ev.op2 \in SpecOps
            THEN LET x == RApply(e2, StOf(pre)) IN x.st = StOf(ev.obs) /\ x.st = StOf(ev.obs2) /\ x.ret = ev.ret /\ x.ret = ev.ret2
            ELSE StOf(ev.obs) = StOf(pre) /\ StOf(ev.obs2) = StOf(pre)
  ELSE IF ev.op \in {"clone_only", "clone_dropped"} THEN StOf(ev.obs) = StOf(pre)
  ELSE IF ev.op \in SpecOps
       THEN LET x == RApply(ev, StOf(pre)) IN x.st = StOf(ev.obs) /\ x.ret = ev.ret
       ELSE StOf(ev.obs) = StOf(pre)
\* C15: the callback received exactly the departing entries, once each, in departure order
\* (a pair handed straight back by a capacity-0 cache never entered it: either answer accepted).
\* When the step itself is the specification's step (C06 holds for it), the entries leave in the specification's
\* order and the callback log must equal the specification's.  When the step is NOT the specification's (a policy
\* defect: C06's business, reported there), the order of leaving cannot be observed from outside, and C15 is judged
\* on what can: the log holds exactly the entries that were resident before and are gone after, each once.
DepartedObs(pre, post) ==
  LET keep == {post.list[i].k : i \in 1..Len(post.list)}
  IN {<<pre.list[i].k, pre.list[i].v>> : i \in {j \in 1..Len(pre.list) : pre.list[j].k \notin keep}}
C15Step(pre, ev) ==
  IF ev.op = "drop" THEN TRUE
  ELSE IF ev.panic THEN TRUE
  ELSE IF ~RWellFormed(StOf(pre)) THEN TRUE
  \* clone mode: cloning notifies nobody; on the common operation the ORIGINAL and the COPY each notify exactly as the
  \* specification says (a copy that lost its callback stays silent)
  ELSE IF ev.op \in {"clone", "clone_dropped"} THEN TRUE
  ELSE IF ev.op = "both" THEN
       LET e2 == [ev EXCEPT !.op = ev.op2] IN
       IF ev.op2 \notin SpecOps THEN ev.cb = <<>> /\ ev.cb2 = <<>>
       ELSE LET x == RApply(e2, StOf(pre)) IN
            IF x.st = StOf(ev.obs) /\ x.st = StOf(ev.obs2) THEN (ev.cb = x.cb /\ ev.cb2 = x.cb) \/ pre.cap = 0
            ELSE TRUE
  ELSE IF ev.op = "clone_only" THEN TRUE
  ELSE IF ev.op \notin SpecOps THEN ev.cb = <<>>
  ELSE LET x == RApply(ev, StOf(pre)) IN
       IF x.st = StOf(ev.obs)
       THEN \/ ev.cb = x.cb
            \/ pre.cap = 0 /\ ev.op \in PutLikeOps /\ IsPutResult(EvPR(ev)) /\ EvPR(ev).t = "Evicted"
                 /\ ev.cb = <<<<ev.k, ev.v>>>>
       ELSE /\ SeqToSet(ev.cb) = DepartedObs(pre, ev.obs)
            /\ Len(ev.cb) = Cardinality(DepartedObs(pre, ev.obs))

\* C16: a clone is observationally identical at the moment of cloning (capacity, every partition in
\* order with values, estimator state), behaves identically afterwards, and is independent
Same2(o1, o2) == /\ FullState(o2) = FullState(o1) /\ o2.contains = o1.contains /\ o2.peek = o1.peek
                 /\ o2.len = o1.len /\ o2.empty = o1.empty
C16Step(pre, ev) ==
  CASE ev.op = "clone" -> IF ev.panic THEN FALSE
                          ELSE IF "unsupported" \in DOMAIN ev THEN TRUE
                          ELSE Same2(ev.obs, ev.obs2) /\ FullState(ev.obs) = FullState(pre)
    [] ev.op = "both" -> ev.ret2 = ev.ret /\ Same2(ev.obs, ev.obs2)
                         /\ (IF "cb2" \in DOMAIN ev /\ "cb" \in DOMAIN ev THEN ev.cb2 = ev.cb ELSE TRUE)   \* the clone notifies like the original
    [] ev.op \in {"clone_only", "clone_dropped"} -> FullState(ev.obs) = FullState(pre)
    [] OTHER -> TRUE

\* predicates shared by all cache types, selected by PROP; policy property id: C06
Generic(pre, ev) ==
  \* (IF .. THEN TRUE ELSE ..: inside an action TLC evaluates BOTH sides of a disjunction)
  IF ev.op = "drop" /\ PROP \notin {"C04", "C18"} THEN TRUE
  \* a call that panicked is judged by C05 / C18; for the memory properties what the execution monitor saw DURING the call still
  \* counts (a key hashed out of an uninitialised or dead node, a double drop), whether or not the call returned
  ELSE IF ev.panic /\ PROP \notin {"C05", "C16", "C18", "C06"} THEN (IF PROP \in {"C03", "C04"} THEN ev.anomalies = <<>> ELSE TRUE)
  ELSE CASE PROP = "C01" -> \* (in clone mode the copy is a cache too: its bounds and accessors are judged as well)
                             (IF "len" \in DOMAIN ev.obs THEN C01View(OV(ev.obs)) /\ AccessorsOK(ev.obs) ELSE TRUE)
                             /\ (IF "obs2" \in DOMAIN ev /\ "len" \in DOMAIN ev.obs2 THEN C01View(OV(ev.obs2)) /\ AccessorsOK(ev.obs2) ELSE TRUE)
         [] PROP = "C02" -> C02Step(OV(pre), ev, OV(ev.obs))
         [] PROP = "C03" -> C03Audit(ev.obs) /\ ev.anomalies = <<>>
         [] PROP = "C04" -> C04Event(TokOf(pre), ev, IF ev.op = "drop" THEN <<>> ELSE TokOf(ev.obs))
         [] PROP = "C05" -> ~ev.panic
         [] PROP = "C16" -> C16Step(pre, ev)
         [] PROP = "C18" -> LET hasObs == "len" \in DOMAIN ev.obs IN
                            C18Event(ev, hasObs, IF hasObs THEN TokOf(ev.obs) ELSE <<>>, IF hasObs THEN ev.obs.audit ELSE <<>>)
         [] PROP = "C12" -> IF IsPutResult(EvPR(ev))
                            THEN C12Put(OV(pre), ev.k, ev.v, EvPR(ev), OV(ev.obs), FALSE) ELSE TRUE
         [] PROP = "C13" -> /\ ev.obs.stable
                            /\ (IF ev.op \in ReadOnlyOps /\ ~HasW(ev) THEN FullState(ev.obs) = FullState(pre) ELSE TRUE)
         [] PROP = "C06" -> PolicyStep(pre, ev)
JumpOK(ev) ==
  CASE PROP = "C03" -> C03Audit(ev.obs) /\ ev.anomalies = <<>>
    [] PROP = "C01" -> C01View(OV(ev.obs)) /\ AccessorsOK(ev.obs)
    [] PROP = "C04" -> C04Distinct(TokOf(ev.obs)) /\ ev.anomalies = <<>>
    [] OTHER -> TRUE
Check(pre, ev) == IF PROP = "C15" THEN C15Step(pre, ev) ELSE Generic(pre, ev)

TInit == l = 1 /\ base = [none |-> TRUE] /\ cur = [none |-> TRUE]
Step ==
  /\ l <= Len(Rec)
  /\ l' = l + 1
  /\ LET ev == Rec[l] IN
     IF ev.op = "jump"
     THEN /\ base' = ev.obs /\ cur' = ev.obs
          /\ JumpOK(ev)
     ELSE LET pre == IF ev.chain THEN cur ELSE base IN
          /\ Check(pre, ev)
          /\ base' = base
          /\ cur' = IF ev.panic \/ ev.op = "drop" THEN pre ELSE ev.obs
TSpec == TInit /\ [][Step]_tvars
Accepted ==
  LET d == TLCGet("stats").diameter IN
  IF d - 1 = Len(Rec) THEN TRUE
  ELSE PrintT(<<"REJECT", d, ToJson(Rec[d])>>) /\ FALSE
=============================================================================
