----------------------------- MODULE HeapTrace -----------------------------
(***************************************************************************)
(* Binds the pointer-level model RawLRUHeap.tla to the real RawLRU: trace  *)
(* validation of the FAULT-INJECTION traces (C18 mode of the harness).     *)
(* Each test is: jump (observed list with object tokens), the faulting     *)
(* call (operation, tokens handed in, which kind of user code was made to  *)
(* panic and whether it fired, tokens dropped during the call including    *)
(* unwinding, tokens handed back, observation afterwards), then probes.    *)
(* The model is initialised from the observed pre-state; the operation is  *)
(* started and its MICRO-STEPS run as silent steps, with a panic allowed   *)
(* at any user-code call point; the event is EXPLAINED if some run ends in *)
(* a state that matches everything observed: same objects dropped by       *)
(* unwinding, same objects handed back, same list (object identities, in   *)
(* order) readable through the iterator afterwards, panic class (index     *)
(* operation vs callback).  Ordinals of user calls are NOT matched (the    *)
(* hash map may rehash); kinds the model has no call point for (Drop,      *)
(* Clone, KeyHasher) and operations it does not model are skipped.         *)
(* Acceptance: register 1 holds the furthest record reached.               *)
(***************************************************************************)
EXTENDS RawLRUHeap, Json, IOUtils
Rec == ndJsonDeserialize(IOEnv.TRACE)
VARIABLES l, phase, tok0, pstep
tvars == <<vars, l, phase, tok0, pstep>>

ModelledOps == {"put", "get", "get_mut", "remove", "remove_lru"}
IndexKinds == {"hash", "eq", "hasher"}
ModelledKinds == IndexKinds \cup {"cb"}
SeqSet2(s) == {s[i] : i \in 1..Len(s)}
InRange(o) == /\ Len(o.list) <= MaxPuts - 2
              /\ \A i \in 1..Len(o.tok.list) : o.tok.list[i][1] \in Toks /\ o.tok.list[i][2] \in Toks
EventInRange(r) == \A i \in 1..Len(r["in"]) : r["in"][i] \in Toks

\* the model state that corresponds to an observed RawLRU: nodes 1..n in list order
FromObs(o) ==
  LET n == Len(o.list)
      kt(i) == o.tok.list[i][1]
      vt(i) == o.tok.list[i][2]
  IN /\ heap' = [i \in Ptrs |->
                   IF i = H THEN Node("sentinel", 0, 0, H, IF n = 0 THEN T ELSE 1)
                   ELSE IF i = T THEN Node("sentinel", 0, 0, IF n = 0 THEN H ELSE n, T)
                   ELSE IF i <= n THEN Node("live", kt(i), vt(i), IF i = 1 THEN H ELSE i - 1, IF i = n THEN T ELSE i + 1)
                   ELSE Node("unalloc", 0, 0, 0, 0)]
     /\ index' = {[k |-> o.list[i].k, kp |-> i, n |-> i] : i \in 1..n}
     /\ tok' = [t \in Toks |->
                  IF \E i \in 1..n : kt(i) = t THEN [k |-> o.list[CHOOSE i \in 1..n : kt(i) = t].k, st |-> "live"]
                  ELSE IF \E i \in 1..n : vt(i) = t THEN [k |-> 0, st |-> "live"]
                  ELSE [k |-> 0, st |-> "unborn"]]
     /\ nputs' = 0 /\ pc' = Idle /\ bad' = {} /\ panics' = 0 /\ dropped' = FALSE

Advance == l' = l + 1 /\ TLCSet(1, IF TLCGet(1) < l + 1 THEN l + 1 ELSE TLCGet(1))
Keep == UNCHANGED vars

\* what the iterator shows afterwards: the first map.len() nodes from the head
ObservedList == [i \in 1..MapLen |-> <<heap[Fwd[i]].key, heap[Fwd[i]].val>>]
Class(step) == IF step = "cb" THEN "cb" ELSE "index"
Match(r) ==
  /\ bad = {}
  /\ {t \in Toks : tok[t].st = "dropped" /\ tok0[t].st # "dropped"} = SeqSet2(r.drops)
  /\ {t \in Toks : tok[t].st = "returned" /\ tok0[t].st # "returned"} = SeqSet2(r.out)
  /\ r.panic = (panics > 0)
  /\ (IF "fault" \in DOMAIN r /\ r.panic /\ r.fault.fired
      THEN Class(pstep) = (IF r.fault.kind = "cb" THEN "cb" ELSE "index") ELSE TRUE)
  /\ IF "list" \in DOMAIN r.obs
     THEN Len(Fwd) >= MapLen /\ ObservedList = r.obs.tok.list
     ELSE TRUE

\* start the operation of record r on the model
Start(r) ==
  CASE r.op = "put" -> StartPutT(r.k, r["in"][1], r["in"][2])
    [] r.op \in {"get", "get_mut"} -> Get(r.k)
    [] r.op = "remove" -> StartRemove(r.k)
    [] r.op = "remove_lru" -> StartRemoveLru

TInit == Init /\ l = 1 /\ phase = "skip" /\ tok0 = tok /\ pstep = "none" /\ TLCSet(1, 1) /\ TLCSet(2, 0) /\ TLCSet(3, 0)
TNext ==
  IF l > Len(Rec) THEN FALSE
  ELSE LET r == Rec[l] IN
  IF phase = "run" THEN
       IF pc.op # "idle"
       THEN /\ Micro /\ UNCHANGED <<l, phase, tok0>>
            /\ pstep' = IF panics' > panics THEN pc.step ELSE pstep
       ELSE /\ Match(r) /\ Advance /\ phase' = "skip" /\ Keep /\ UNCHANGED <<tok0, pstep>>
            /\ TLCSet(2, TLCGet(2) + 1) /\ (IF panics > 0 THEN TLCSet(3, TLCGet(3) + 1) ELSE TRUE)
  ELSE IF r.op = "jump" THEN
       IF r.obs.cap = Cap /\ InRange(r.obs)
       THEN FromObs(r.obs) /\ Advance /\ phase' = "armed" /\ UNCHANGED <<tok0, pstep>>
       ELSE Keep /\ Advance /\ phase' = "skip" /\ UNCHANGED <<tok0, pstep>>
  ELSE IF /\ phase = "armed" /\ r.op \in ModelledOps /\ "in" \in DOMAIN r /\ EventInRange(r)
          /\ (IF "fault" \in DOMAIN r THEN r.fault.kind \in ModelledKinds ELSE ~r.chain)
       THEN /\ Start(r) /\ tok0' = tok /\ phase' = "run" /\ l' = l
            /\ pstep' = IF panics' > panics THEN "start" ELSE "none"
  ELSE Keep /\ Advance /\ phase' = "skip" /\ UNCHANGED <<tok0, pstep>>
TSpec == TInit /\ [][TNext]_tvars
Accepted ==
  LET d == TLCGet(1) IN
  IF d = Len(Rec) + 1 THEN PrintT(<<"EXPLAINED", TLCGet(2), "with-panic", TLCGet(3), "records", Len(Rec)>>)
  ELSE PrintT(<<"REJECT", d, ToJson(Rec[d])>>) /\ FALSE
=============================================================================
