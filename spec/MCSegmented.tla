---------------------------- MODULE MCSegmented ----------------------------
(* Model-checking / behaviour-generation instance of Segmented.tla (see MCAdaptive.tla). *)
EXTENDS Segmented, Props, Json
CONSTANTS Keys, Vals, Emit
VARIABLES st, hist
vars == <<st, hist>>
Ops == SOps(Keys, Vals)
V(s) == SpecView(SParts(s), SRes, SBounds, A + B)
Init == st = SInit /\ hist = <<>>
Step(o) == st' = SApply(o, st).st /\ hist' = Append(hist, o)
Next == \E o \in Ops : Step(o)
Spec == Init /\ [][Next]_vars
View == st
Inv == SWellFormed(st) /\ C01View(V(st))
\* refinement into the integer abstraction SegmentedLen (bounds proved by Apalache for every pair of capacities)
SL == INSTANCE SegmentedLen WITH CA <- A, CB <- B, a <- Len(st.prob), b <- Len(st.prot)
StepOK == LET o == hist'[Len(hist')]
              x == SApply(o, st)
              n == x.st
          IN /\ GenericStepOK(V(st), o @@ [ret |-> x.ret], V(x.st), SReadOnly, FALSE)
             /\ Assert(SL!NextRel(Len(st.prob), Len(st.prot), Len(n.prob), Len(n.prot)),
                       <<"step is not a step of SegmentedLen", st, o, n>>)
EmitState == IF Emit THEN PrintT(<<"STATE", ToJson([path |-> hist])>>) ELSE TRUE
EmitOps == IF Emit THEN PrintT(<<"OPS", ToJson([ops |-> Ops])>>) ELSE TRUE
ASSUME EmitOps
ASSUME A >= 1 /\ B >= 1
=============================================================================
