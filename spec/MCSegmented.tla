---------------------------- MODULE MCSegmented ----------------------------
(* Model-checking / behaviour-generation instance of Segmented.tla (see MCAdaptive.tla). *)
EXTENDS Segmented, Props, Json
CONSTANTS Keys, Vals, Emit
VARIABLES st, hist
vars == <<st, hist>>
Ops == SOps(Keys, Vals)
V(s) == SpecView(SParts(s), SRes, SBounds, A + B)
Init == st = SInit /\ hist = <<>>
Step(o) == st' = SApply(o, st).st /\ hist' = Append(hist, o)
Next == \E o \in Ops : Step(o)
Spec == Init /\ [][Next]_vars
View == st
Inv == SWellFormed(st) /\ C01View(V(st))
StepOK == LET o == hist'[Len(hist')]
              x == SApply(o, st)
          IN GenericStepOK(V(st), o @@ [ret |-> x.ret], V(x.st), SReadOnly, FALSE)
EmitState == IF Emit THEN PrintT(<<"STATE", ToJson([path |-> hist])>>) ELSE TRUE
EmitOps == IF Emit THEN PrintT(<<"OPS", ToJson([ops |-> Ops])>>) ELSE TRUE
ASSUME EmitOps
ASSUME A >= 1 /\ B >= 1
=============================================================================
