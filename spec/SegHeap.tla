------------------------------ MODULE SegHeap ------------------------------
(***************************************************************************)
(* Pointer-level model of the NODE HAND-OVER between the two lists of      *)
(* SegmentedCache (src/lru/segmented.rs on top of the crate-internal       *)
(* primitives of src/lru/raw.rs):                                          *)
(*   remove_and_return_ent   unindex + unlink a node, hand it to the caller*)
(*   put_or_evict_nonnull    link + index a node; when the list is full    *)
(*                           its LRU node is unlinked and handed back      *)
(*   put_nonnull             same, but the pushed-out node is FREED and    *)
(*                           its pair returned (and dropped by the caller) *)
(* Between two primitives a node is owned by NOBODY (a raw pointer in a    *)
(* local).  Every index operation calls user code (Hash / Eq of a key) and *)
(* may panic there; unwinding drops Rust locals (the key/value arguments   *)
(* still owned by the call) but never a node held as a raw pointer: such a *)
(* node leaks, with its pair.                                              *)
(* Lists: P = probationary (capacity CA), R = protected (capacity CB).     *)
(* Checked by TLC (MCSegHeap): Safe (no use-after-free, no uninitialised   *)
(* read, no double drop, no double free) after any number (<= MaxPanics)   *)
(* of panics; for panic-free histories both chains are well formed, no key *)
(* lives in two lists, every object is accounted for, and the lists read   *)
(* off the heap are the lists of Segmented.tla (Refines).                  *)
(***************************************************************************)
EXTENDS Naturals, Sequences, FiniteSets, TLC
CONSTANTS Keys, CA, CB, MaxPuts, MaxPanics

Lists == {"P", "R"}
HeadOf(l) == IF l = "P" THEN 0 ELSE 2
TailOf(l) == IF l = "P" THEN 1 ELSE 3
CapOf(l) == IF l = "P" THEN CA ELSE CB
NodeIds == 4..(3 + MaxPuts)
Ptrs == 0..(3 + MaxPuts)
Toks == 1..(2 * MaxPuts)

VARIABLES heap, index, tok, nputs, pc, bad, panics
vars == <<heap, index, tok, nputs, pc, bad, panics>>
Idle == [op |-> "idle", step |-> "idle"]
Node(st, key, val, p, n) == [st |-> st, key |-> key, val |-> val, prev |-> p, next |-> n]
Init ==
  /\ heap = [i \in Ptrs |-> IF i \in {0, 2} THEN Node("sentinel", 0, 0, i, i + 1)
                            ELSE IF i \in {1, 3} THEN Node("sentinel", 0, 0, i - 1, i)
                            ELSE Node("unalloc", 0, 0, 0, 0)]
  /\ index = {} /\ tok = [t \in Toks |-> [k |-> 0, st |-> "unborn"]]
  /\ nputs = 0 /\ pc = Idle /\ bad = {} /\ panics = 0

(* ------------------------------ helpers ------------------------------- *)
Usable(h, n) == h[n].st \in {"live", "sentinel"}
DerefBad(h, n) == IF Usable(h, n) THEN {} ELSE {"use-after-free"}
KeyReadBad(h, n) == DerefBad(h, n) \cup (IF h[n].st = "sentinel" \/ h[n].key = 0 THEN {"uninit-read"} ELSE {})
KeyValOf(h, n) == IF h[n].key = 0 THEN 0 ELSE tok[h[n].key].k
IdxOf(l) == {e \in index : e.l = l}
LenOf(l) == Cardinality(IdxOf(l))
Matches(h, l, k) == {e \in IdxOf(l) : e.k = k /\ KeyValOf(h, e.n) = k}
LookupBad(h, l, k) == UNION {KeyReadBad(h, e.n) : e \in {x \in IdxOf(l) : x.k = k}}
Detach(h, n) == LET p == h[n].prev  x == h[n].next IN [h EXCEPT ![p].next = x, ![x].prev = p]
DetachBad(h, n) == DerefBad(h, n) \cup DerefBad(h, h[n].prev) \cup DerefBad(h, h[n].next)
Attach(h, l, n) ==
  LET hd == HeadOf(l)
      first == h[hd].next
      h1 == [h EXCEPT ![n].next = first, ![n].prev = hd, ![hd].next = n]
  IN [h1 EXCEPT ![first].prev = n]
AttachBad(h, l, n) == DerefBad(h, n) \cup DerefBad(h, h[HeadOf(l)].next)
DropToks(tk, S) == [t \in Toks |-> IF t \in S THEN [tk[t] EXCEPT !.st = "dropped"] ELSE tk[t]]
DropBad(tk, S) == IF \E t \in S : tk[t].st # "live" THEN {"double-drop"} ELSE {}
ReturnToks(tk, S) == [t \in Toks |-> IF t \in S THEN [tk[t] EXCEPT !.st = "returned"] ELSE tk[t]]
CanPanic == panics < MaxPanics
\* unwinding: the listed locals (owned objects) are dropped; raw node pointers are simply forgotten
Unwind(locals) ==
  /\ tok' = DropToks(tok, locals) /\ bad' = bad \cup DropBad(tok, locals)
  /\ pc' = Idle /\ panics' = panics + 1
  /\ UNCHANGED <<heap, index, nputs>>
Goto(rec) == pc' = rec

(* ------------------- SegmentedCache::put(k, v) ------------------------ *)
StartPutT(k, tk, tv) ==
  /\ pc.op = "idle" /\ nputs < MaxPuts
  /\ tok' = [tok EXCEPT ![tk] = [k |-> k, st |-> "live"], ![tv] = [k |-> 0, st |-> "live"]]
  /\ Goto([op |-> "put", step |-> "prot_lookup", k |-> k, tk |-> tk, tv |-> tv])
  /\ nputs' = nputs + 1 /\ UNCHANGED <<heap, index, bad, panics>>
StartPut(k) == StartPutT(k, 2 * nputs + 1, 2 * nputs + 2)
\* 1. protected.map.get_mut(&key): user Hash/Eq; hit -> update in place and move to front
PutProtLookup ==
  /\ pc.op = "put" /\ pc.step = "prot_lookup"
  /\ \/ CanPanic /\ Unwind({pc.tk, pc.tv})
     \/ /\ bad' = bad \cup LookupBad(heap, "R", pc.k)
        /\ LET m == Matches(heap, "R", pc.k) IN
           IF m # {} THEN
             LET n == (CHOOSE e \in m : TRUE).n
                 old == heap[n].val
                 h1 == [heap EXCEPT ![n].val = pc.tv]
             IN /\ heap' = Attach(Detach(h1, n), "R", n)
                /\ tok' = ReturnToks(DropToks(tok, {pc.tk}), {old} \ {0})
                /\ pc' = Idle /\ UNCHANGED <<index, nputs, panics>>
           ELSE /\ Goto([pc EXCEPT !.step = "prob_contains"]) /\ UNCHANGED <<heap, index, tok, nputs, panics>>
\* 2. probationary.contains(&k): user Hash/Eq
PutProbContains ==
  /\ pc.op = "put" /\ pc.step = "prob_contains"
  /\ \/ CanPanic /\ Unwind({pc.tk, pc.tv})
     \/ /\ bad' = bad \cup LookupBad(heap, "P", pc.k)
        /\ IF Matches(heap, "P", pc.k) # {}
           THEN Goto([pc EXCEPT !.step = "prob_take"])
           ELSE Goto([pc EXCEPT !.step = "new_lookup"])
        /\ UNCHANGED <<heap, index, tok, nputs, panics>>
\* 2a. remove_and_return_ent(&k): user Hash/Eq again; the node is unindexed and unlinked, then the value swapped
PutProbTake ==
  /\ pc.op = "put" /\ pc.step = "prob_take"
  /\ \/ CanPanic /\ Unwind({pc.tk, pc.tv})
     \/ /\ bad' = bad \cup LookupBad(heap, "P", pc.k)
        /\ LET m == Matches(heap, "P", pc.k) IN
           IF m = {} THEN /\ tok' = ReturnToks(DropToks(tok, {pc.tk}), {pc.tv}) /\ pc' = Idle   \* .unwrap_or(Update(v)): v handed back
                          /\ UNCHANGED <<heap, index, nputs, panics>>
           ELSE LET e == CHOOSE x \in m : TRUE
                    old == heap[e.n].val
                    h1 == Detach(heap, e.n)
                IN /\ index' = index \ {e}
                   /\ heap' = [h1 EXCEPT ![e.n].val = pc.tv]                    \* swap_value: the node now owns the new value
                   /\ Goto([op |-> "put", step |-> "promote", ent |-> e.n, ret |-> {old} \ {0}, locals |-> {pc.tk}, after |-> "done"])
                   /\ UNCHANGED <<tok, nputs, panics>>
\* 3. new key: probationary.put(k, v) = RawLRU::put on P
PutNewLookup ==
  /\ pc.op = "put" /\ pc.step = "new_lookup"
  /\ \/ CanPanic /\ Unwind({pc.tk, pc.tv})
     \/ /\ bad' = bad \cup LookupBad(heap, "P", pc.k)
        /\ IF LenOf("P") >= CapOf("P") THEN Goto([pc EXCEPT !.step = "new_full"]) ELSE Goto([pc EXCEPT !.step = "new_alloc"])
        /\ UNCHANGED <<heap, index, tok, nputs, panics>>
PutNewFull ==
  /\ pc.op = "put" /\ pc.step = "new_full"
  /\ LET node == heap[TailOf("P")].prev
         ok == KeyValOf(heap, node)
     IN \/ CanPanic /\ Unwind({pc.tk, pc.tv})
        \/ /\ bad' = bad \cup KeyReadBad(heap, node) \cup LookupBad(heap, "P", ok)
           /\ LET m == Matches(heap, "P", ok) IN
              IF m = {} THEN /\ tok' = DropToks(tok, {pc.tk, pc.tv}) /\ pc' = Idle /\ panics' = panics + 1
                             /\ UNCHANGED <<heap, index, nputs>>
              ELSE LET e == CHOOSE x \in m : TRUE
                       h1 == [heap EXCEPT ![e.n].key = pc.tk, ![e.n].val = pc.tv]
                   IN /\ index' = index \ {e}
                      /\ heap' = Attach(Detach(h1, e.n), "P", e.n)
                      /\ Goto([op |-> "put", step |-> "new_insert", k |-> pc.k, node |-> e.n, rk |-> heap[e.n].key, rv |-> heap[e.n].val])
                      /\ UNCHANGED <<tok, nputs, panics>>
PutNewAlloc ==
  /\ pc.op = "put" /\ pc.step = "new_alloc"
  /\ LET n == CHOOSE i \in NodeIds : heap[i].st = "unalloc" /\ \A j \in NodeIds : j < i => heap[j].st # "unalloc" IN
     /\ heap' = Attach([heap EXCEPT ![n] = Node("live", pc.tk, pc.tv, 0, 0)], "P", n)
     /\ Goto([op |-> "put", step |-> "new_insert", k |-> pc.k, node |-> n, rk |-> 0, rv |-> 0])
  /\ UNCHANGED <<index, tok, nputs, bad, panics>>
PutNewInsert ==
  /\ pc.op = "put" /\ pc.step = "new_insert"
  /\ \/ CanPanic /\ Unwind({pc.rk, pc.rv} \ {0})
     \/ /\ index' = index \cup {[l |-> "P", k |-> pc.k, n |-> pc.node]}
        /\ tok' = ReturnToks(tok, {pc.rk, pc.rv} \ {0})                         \* Evicted{..} handed back
        /\ pc' = Idle /\ UNCHANGED <<heap, nputs, bad, panics>>

(* ---- promotion: protected.put_or_evict_nonnull(ent) [+ probationary.put_nonnull(evicted)] ---- *)
\* ent is a raw node pointer: if anything panics from here on, ent (and its pair) leaks
Promote ==
  /\ pc.step = "promote"
  /\ IF LenOf("R") >= CapOf("R") /\ CapOf("R") > 0
     THEN LET old == heap[TailOf("R")].prev
              ok == KeyValOf(heap, old)
          IN \/ CanPanic /\ Unwind(pc.locals \cup pc.ret)                 \* Hash of the old key panics
             \/ /\ bad' = bad \cup KeyReadBad(heap, old) \cup LookupBad(heap, "R", ok)
                /\ LET m == Matches(heap, "R", ok) IN
                   IF m = {} THEN /\ tok' = DropToks(tok, pc.locals \cup pc.ret) /\ pc' = Idle /\ panics' = panics + 1
                                  /\ UNCHANGED <<heap, index, nputs>>
                   ELSE LET e == CHOOSE x \in m : TRUE IN
                        /\ index' = index \ {e}
                        /\ heap' = Attach(Detach(heap, e.n), "R", pc.ent)
                        /\ Goto([pc EXCEPT !.step = "promote_insert"] @@ [demoted |-> e.n])
                        /\ UNCHANGED <<tok, nputs, panics>>
     ELSE /\ heap' = Attach(heap, "R", pc.ent) /\ bad' = bad \cup AttachBad(heap, "R", pc.ent)
          /\ Goto([pc EXCEPT !.step = "promote_insert"] @@ [demoted |-> 0])
          /\ UNCHANGED <<index, tok, nputs, panics>>
PromoteInsert ==
  /\ pc.step = "promote_insert"
  /\ \/ CanPanic /\ Unwind(pc.locals \cup pc.ret)                          \* ent linked in R but unindexed; demoted node leaked
     \/ /\ index' = index \cup {[l |-> "R", k |-> KeyValOf(heap, pc.ent), n |-> pc.ent]}
        /\ IF pc.demoted = 0
           THEN /\ tok' = ReturnToks(DropToks(tok, pc.locals), pc.ret) /\ pc' = Idle
                /\ UNCHANGED <<heap, nputs, bad, panics>>
           ELSE /\ Goto([pc EXCEPT !.step = "demote"]) /\ UNCHANGED <<heap, tok, nputs, bad, panics>>
\* probationary.put_nonnull(demoted): P has room (an entry just left it), so this links and indexes
Demote ==
  /\ pc.step = "demote"
  /\ IF LenOf("P") >= CapOf("P")
     THEN \* P full (cannot happen in a panic-free history): put_nonnull frees P's LRU node and returns its pair, which is dropped
          LET old == heap[TailOf("P")].prev
              ok == KeyValOf(heap, old)
              m == Matches(heap, "P", ok)
          IN \/ CanPanic /\ Unwind(pc.locals \cup pc.ret)
             \/ /\ bad' = bad \cup KeyReadBad(heap, old) \cup LookupBad(heap, "P", ok)
                /\ IF m = {} THEN /\ tok' = DropToks(tok, pc.locals \cup pc.ret) /\ pc' = Idle /\ panics' = panics + 1
                                  /\ UNCHANGED <<heap, index, nputs>>
                   ELSE LET e == CHOOSE x \in m : TRUE
                            h1 == Attach(Detach(heap, e.n), "P", pc.demoted)
                        IN /\ index' = (index \ {e}) \cup {[l |-> "P", k |-> KeyValOf(heap, pc.demoted), n |-> pc.demoted]}
                           /\ heap' = [h1 EXCEPT ![e.n].st = "freed"]
                           /\ tok' = ReturnToks(DropToks(tok, pc.locals \cup ({heap[e.n].key, heap[e.n].val} \ {0})), pc.ret)
                           /\ pc' = Idle /\ UNCHANGED <<nputs, panics>>
     ELSE \* room in P: the node is LINKED first (no user code), then indexed (user Hash)
          /\ heap' = Attach(heap, "P", pc.demoted) /\ bad' = bad \cup AttachBad(heap, "P", pc.demoted)
          /\ Goto([pc EXCEPT !.step = "demote_insert"]) /\ UNCHANGED <<index, tok, nputs, panics>>
DemoteInsert ==
  /\ pc.step = "demote_insert"
  /\ \/ CanPanic /\ Unwind(pc.locals \cup pc.ret)                          \* Hash of the demoted key panics: the node stays linked in P, unindexed
     \/ /\ index' = index \cup {[l |-> "P", k |-> KeyValOf(heap, pc.demoted), n |-> pc.demoted]}
        /\ tok' = ReturnToks(DropToks(tok, pc.locals), pc.ret)
        /\ bad' = bad \cup DropBad(tok, pc.locals)
        /\ pc' = Idle /\ UNCHANGED <<heap, nputs, panics>>

(* ------------------------ SegmentedCache::get(k) ---------------------- *)
Get(k) ==
  /\ pc.op = "idle"
  /\ \/ CanPanic /\ Unwind({})
     \/ /\ bad' = bad \cup LookupBad(heap, "R", k)
        /\ LET m == Matches(heap, "R", k) IN
           IF m # {} THEN LET n == (CHOOSE e \in m : TRUE).n IN
                          heap' = Attach(Detach(heap, n), "R", n) /\ pc' = pc
           ELSE heap' = heap /\ Goto([op |-> "get", step |-> "prob_peek", k |-> k])
        /\ UNCHANGED <<index, tok, nputs, panics>>
GetProbPeek ==
  /\ pc.op = "get" /\ pc.step = "prob_peek"
  /\ \/ CanPanic /\ Unwind({})
     \/ /\ bad' = bad \cup LookupBad(heap, "P", pc.k)
        /\ IF Matches(heap, "P", pc.k) = {} THEN pc' = Idle ELSE Goto([pc EXCEPT !.step = "prob_take"])
        /\ UNCHANGED <<heap, index, tok, nputs, panics>>
GetProbTake ==
  /\ pc.op = "get" /\ pc.step = "prob_take"
  /\ \/ CanPanic /\ Unwind({})
     \/ /\ bad' = bad \cup LookupBad(heap, "P", pc.k)
        /\ LET m == Matches(heap, "P", pc.k) IN
           IF m = {} THEN pc' = Idle /\ UNCHANGED <<heap, index>>
           ELSE LET e == CHOOSE x \in m : TRUE IN
                /\ index' = index \ {e} /\ heap' = Detach(heap, e.n)
                /\ Goto([op |-> "get", step |-> "promote", ent |-> e.n, ret |-> {}, locals |-> {}, after |-> "done"])
        /\ UNCHANGED <<tok, nputs, panics>>

(* ---------------------- SegmentedCache::remove(k) --------------------- *)
\* probationary.remove(k).or_else(|| protected.remove(k)); no callback (DefaultEvictCallback)
Remove(k) ==
  /\ pc.op = "idle"
  /\ \/ CanPanic /\ Unwind({})
     \/ /\ LET l == IF Matches(heap, "P", k) # {} THEN "P" ELSE "R"
               m == Matches(heap, l, k)
           IN /\ bad' = bad \cup LookupBad(heap, "P", k) \cup LookupBad(heap, l, k)
              /\ IF m = {} THEN UNCHANGED <<heap, index, tok>>
                 ELSE LET e == CHOOSE x \in m : TRUE IN
                      /\ index' = index \ {e}
                      /\ heap' = [Detach(heap, e.n) EXCEPT ![e.n].st = "freed"]
                      /\ tok' = ReturnToks(DropToks(tok, {heap[e.n].key} \ {0}), {heap[e.n].val} \ {0})
        /\ UNCHANGED <<nputs, pc, panics>>

Micro == PutProtLookup \/ PutProbContains \/ PutProbTake \/ PutNewLookup \/ PutNewFull \/ PutNewAlloc \/ PutNewInsert
         \/ Promote \/ PromoteInsert \/ Demote \/ DemoteInsert \/ GetProbPeek \/ GetProbTake
Next == (\E k \in Keys : StartPut(k) \/ Get(k) \/ Remove(k)) \/ Micro
Spec == Init /\ [][Next]_vars

(* ------------------------------ properties ---------------------------- *)
Safe == bad = {}
RECURSIVE Walk(_, _, _, _, _)
Walk(h, l, n, fwd, fuel) ==
  IF fuel = 0 THEN <<>> ELSE
  LET x == IF fwd THEN h[n].next ELSE h[n].prev IN
  IF (fwd /\ x = TailOf(l)) \/ (~fwd /\ x = HeadOf(l)) THEN <<>> ELSE <<x>> \o Walk(h, l, x, fwd, fuel - 1)
Fwd(l) == Walk(heap, l, HeadOf(l), TRUE, MaxPuts + 1)
Bwd(l) == Walk(heap, l, TailOf(l), FALSE, MaxPuts + 1)
Rev(s) == [i \in 1..Len(s) |-> s[Len(s) + 1 - i]]
SeqSet(s) == {s[i] : i \in 1..Len(s)}
WFList(l) ==
  /\ Bwd(l) = Rev(Fwd(l)) /\ Cardinality(SeqSet(Fwd(l))) = Len(Fwd(l))
  /\ SeqSet(Fwd(l)) = {e.n : e \in IdxOf(l)} /\ Len(Fwd(l)) = LenOf(l) /\ LenOf(l) <= CapOf(l)
  /\ \A e \in IdxOf(l) : heap[e.n].st = "live" /\ KeyValOf(heap, e.n) = e.k
\* C03 (structure) and C01 (a key in at most one list) for panic-free histories
WF == (pc.op = "idle" /\ panics = 0) =>
        /\ WFList("P") /\ WFList("R")
        /\ SeqSet(Fwd("P")) \cap SeqSet(Fwd("R")) = {}
        /\ {e.k : e \in IdxOf("P")} \cap {e.k : e \in IdxOf("R")} = {}
\* after panics: whatever is reachable through a chain or an index is alive, and objects in reachable nodes are alive
Reachable == pc.op = "idle" =>
  \A l \in Lists :
     /\ \A i \in 1..Len(Fwd(l)) : heap[Fwd(l)[i]].st = "live" /\ heap[Fwd(l)[i]].key # 0
                                    /\ tok[heap[Fwd(l)[i]].key].st = "live" /\ tok[heap[Fwd(l)[i]].val].st = "live"
     /\ \A e \in IdxOf(l) : heap[e.n].st = "live"
\* C04 for panic-free histories: every minted object is in exactly one live node, or returned, or dropped
Accounted == (pc.op = "idle" /\ panics = 0) =>
  \A t \in Toks : tok[t].st = "live" <=> (\E n \in NodeIds : heap[n].st = "live" /\ (heap[n].key = t \/ heap[n].val = t))
=============================================================================
