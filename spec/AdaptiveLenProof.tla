------------------------- MODULE AdaptiveLenProof -------------------------
(* TLAPS proof that IndInv is an inductive invariant of AdaptiveLen: a second, independent discharge of the     *)
(* Apalache result, for every value of the size constants.                                             *)
EXTENDS AdaptiveLen, TLAPS
ASSUME ConstAssump == C \in Nat /\ C >= 1
vars == <<t1, t2, b1, b2, p>>
TypeOK == t1 \in Int /\ t2 \in Int /\ b1 \in Int /\ b2 \in Int /\ p \in Int
THEOREM InitInv == Init => IndInv /\ TypeOK
  BY ConstAssump DEF Init, IndInv, TypeOK
THEOREM StepInv == IndInv /\ TypeOK /\ Next => IndInv' /\ TypeOK'
  BY ConstAssump DEF IndInv, TypeOK, Next, NextRel, RoomRel, ReplaceRel, PushCapLen, Min
THEOREM Safety == Init /\ [][Next]_vars => [](IndInv /\ TypeOK)
  <1>1. Init => IndInv /\ TypeOK BY InitInv
  <1>2. (IndInv /\ TypeOK) /\ [Next]_vars => (IndInv /\ TypeOK)'
    BY StepInv DEF vars, IndInv, TypeOK
  <1>. QED BY <1>1, <1>2, PTL
=============================================================================
