------------------------------- MODULE Ctor -------------------------------
(***************************************************************************)
(* C05, first half: constructors, builders and conversions validate their  *)
(* arguments and never panic.                                               *)
(* A call is a record [c |-> constructor name, ...arguments...].  Floating *)
(* point arguments are named symbolically (TLA+ has no floats); the harness *)
(* maps the names to f64 values:                                           *)
(*   "neg" = -1.0, "zero" = 0.0, "tiny" = 1e-9, "quarter" = 0.25,          *)
(*   "half" = 0.5, "big" = 0.999, "one" = 1.0, "two" = 2.0, "nan" = NaN.   *)
(* Accept(call) is the SET of acceptable outcomes: "Ok" or an error kind.  *)
(* Where several arguments are invalid any matching error is acceptable.   *)
(* "Panic" is never acceptable.                                            *)
(***************************************************************************)
EXTENDS Naturals, FiniteSets, Sequences

Sizes == {0, 1, 2, 3, 8}
Ratios == {"neg", "zero", "quarter", "half", "one", "two", "nan"}
Fps == {"neg", "zero", "tiny", "quarter", "big", "one", "two", "nan"}
SamplesSet == {0, 1, 4}
Counts == {0, 1, 3}

RatioOK(r) == r \in {"zero", "quarter", "half", "one"}
FpOK(f) == f \in {"tiny", "quarter", "big"}
\* floor(size * ratio) for the exactly representable ratios
Floor(size, r) == CASE r = "zero" -> 0 [] r = "quarter" -> size \div 4 [] r = "half" -> size \div 2 [] r = "one" -> size

OkIf(cond, errs) == IF cond THEN {"Ok"} ELSE errs

\* ---- 2Q: size, recent ratio, ghost ratio (ghost capacity must be >= 1) ----
TwoQAccept(size, rr, gr) ==
  LET bad == (IF size = 0 THEN {"InvalidSize"} ELSE {})
             \cup (IF ~RatioOK(rr) THEN {"InvalidRecentRatio"} ELSE {})
             \cup (IF ~RatioOK(gr) THEN {"InvalidGhostRatio"} ELSE {})
  IN IF bad # {} THEN bad
     ELSE IF Floor(size, gr) = 0 THEN {"InvalidSize"}      \* the ghost list cannot have capacity 0
     ELSE {"Ok"}
\* ---- W-TinyLFU: window, protected, probationary, samples, false-positive ratio ----
WAccept(w, b, a, s, fp) ==
  LET bad == (IF w = 0 THEN {"InvalidWindowCacheSize"} ELSE {})
             \cup (IF b = 0 THEN {"InvalidProtectedCacheSize"} ELSE {})
             \cup (IF a = 0 THEN {"InvalidProbationaryCacheSize"} ELSE {})
             \cup (IF s = 0 THEN {"InvalidSamples"} ELSE {})
             \cup (IF ~FpOK(fp) THEN {"InvalidFalsePositiveRatio"} ELSE {})
  IN IF bad # {} THEN bad ELSE {"Ok"}
TinyAccept(size, s, fp) ==
  LET bad == (IF size = 0 THEN {"InvalidCountMinWidth"} ELSE {})
             \cup (IF s = 0 THEN {"InvalidSamples"} ELSE {})
             \cup (IF ~FpOK(fp) THEN {"InvalidFalsePositiveRatio"} ELSE {})
  IN IF bad # {} THEN bad ELSE {"Ok"}

Accept(c) ==
  CASE c.c \in {"raw_new", "raw_with_hasher", "raw_with_cb", "raw_with_cb_and_hasher", "arc_new", "arc_builder"}
         -> OkIf(c.n >= 1, {"InvalidSize"})
    [] c.c \in {"slru_new", "slru_builder", "slru_builder_setters"} -> OkIf(c.a >= 1 /\ c.b >= 1, {"InvalidSize"})
    [] c.c \in {"2q_params", "2q_builder"} -> TwoQAccept(c.n, c.rr, c.gr)
    \* builder setters commute: the outcome depends on the final values only, whatever the order (perm) they were set in,
    \* and a value set twice counts once (the last one)
    [] c.c = "2q_builder_perm" -> TwoQAccept(c.n, c.rr, c.gr)
    [] c.c = "w_builder_perm" -> WAccept(c.w, c.b, c.a, c.s, c.fp)
    [] c.c = "2q_new" -> TwoQAccept(c.n, "quarter", "half")
    [] c.c = "2q_with_recent_ratio" -> TwoQAccept(c.n, c.rr, "half")
    [] c.c = "2q_with_ghost_ratio" -> TwoQAccept(c.n, "quarter", c.gr)
    [] c.c \in {"w_with_sizes"} -> WAccept(c.w, c.b, c.a, c.s, "quarter")
    [] c.c \in {"w_builder"} -> WAccept(c.w, c.b, c.a, c.s, c.fp)
    \* new(size, samples) derives the three sizes as fractions of size: small sizes are rejected
    [] c.c = "w_new" -> IF c.n = 0 \/ c.s = 0
                        THEN {"InvalidWindowCacheSize", "InvalidProtectedCacheSize", "InvalidProbationaryCacheSize", "InvalidSamples"}
                        ELSE {"Ok", "InvalidWindowCacheSize", "InvalidProtectedCacheSize", "InvalidProbationaryCacheSize"}
    [] c.c = "tinylfu_new" -> TinyAccept(c.n, c.s, c.fp)
    \* conversions and collectors return a cache, whatever the length of the source (>= 0 items)
    [] c.c \in {"raw_from_vec", "raw_from_iter_nohint", "raw_from_slice", "raw_from_mut_slice", "raw_from_array", "raw_from_vecdeque",
                "raw_from_linkedlist", "raw_from_hashset", "raw_from_btreeset", "raw_from_binaryheap", "raw_from_hashmap",
                "raw_from_btreemap", "raw_collect"} -> {"Ok"}
    [] c.c \in {"sampled_new", "sampled_with_samples", "sampled_with_hasher", "sampled_with_key_hasher",
                "sampled_with_samples_and_hasher", "sampled_with_samples_and_key_hasher",
                "sampled_with_samples_and_key_hasher_and_hasher"} -> {"Ok"}
    \* builders whose hashers are replaced (the setter rebuilds the builder at a new type and has to copy every other
    \* field) between the value setters, in every order
    [] c.c \in {"arc_builder_perm", "arc_from_builder"} -> OkIf(c.n >= 1, {"InvalidSize"})
    [] c.c = "slru_builder_perm" -> OkIf(c.a >= 1 /\ c.b >= 1, {"InvalidSize"})
    [] c.c \in {"2q_builder_hashers", "2q_from_builder"} -> TwoQAccept(c.n, c.rr, c.gr)
    [] c.c \in {"w_builder_hashers", "w_from_builder"} -> WAccept(c.w, c.b, c.a, c.s, c.fp)
    \* Default builders have size 0: finalize must reject, not panic
    [] c.c \in {"arc_builder_default", "2q_builder_default", "slru_builder_default"} -> {"InvalidSize"}

\* ---- what a successful construction must carry (C01: "every internal partition stays within its CONFIGURED bound";
\* C08: "quota and ghost bound are floor(size x ratio) of the configured ratios").  The harness logs, for an Ok outcome,
\*   RawLRU:     <<cap>>
\*   Segmented:  <<probationary cap, protected cap, cap()>>
\*   2Q:         <<cap(), recent quota, ghost cap, recent list cap, frequent list cap>>
\*   ARC:        <<cap(), recent, frequent, recent-ghost, frequent-ghost list caps>>
\*   W-TinyLFU:  <<window cap, probationary cap, protected cap, samples, cap()>>
\*   TinyLFU:    <<samples>>
\*   SampledLFU: <<room_left(0) on the fresh tracker = max_cost, size of a sample drawn from 8 tracked keys = min(samples, 8)>>
\* <<>> = not constrained (W-TinyLFU::new derives its sizes with binary floating point; conversions are covered by OrderOK).
DefaultSamples == 5
Min2(x, y) == IF x < y THEN x ELSE y
TwoQShape(n, rr, gr) == <<n, Floor(n, rr), Floor(n, gr), n, n>>
Shape(c) ==
  CASE c.c \in {"raw_new", "raw_with_hasher", "raw_with_cb", "raw_with_cb_and_hasher"} -> <<c.n>>
    [] c.c \in {"arc_new", "arc_builder", "arc_builder_perm", "arc_from_builder"} -> <<c.n, c.n, c.n, c.n, c.n>>
    [] c.c \in {"slru_new", "slru_builder", "slru_builder_setters", "slru_builder_perm"} -> <<c.a, c.b, c.a + c.b>>
    [] c.c \in {"2q_params", "2q_builder", "2q_builder_perm", "2q_builder_hashers", "2q_from_builder"} -> TwoQShape(c.n, c.rr, c.gr)
    [] c.c = "2q_new" -> TwoQShape(c.n, "quarter", "half")
    [] c.c = "2q_with_recent_ratio" -> TwoQShape(c.n, c.rr, "half")
    [] c.c = "2q_with_ghost_ratio" -> TwoQShape(c.n, "quarter", c.gr)
    [] c.c \in {"w_with_sizes", "w_builder", "w_builder_perm", "w_builder_hashers", "w_from_builder"} -> <<c.w, c.a, c.b, c.s, c.w + c.a + c.b>>
    [] c.c = "tinylfu_new" -> <<c.s>>
    [] c.c \in {"sampled_new", "sampled_with_hasher", "sampled_with_key_hasher"} -> <<c.n, DefaultSamples>>
    [] c.c \in {"sampled_with_samples", "sampled_with_samples_and_hasher", "sampled_with_samples_and_key_hasher",
                "sampled_with_samples_and_key_hasher_and_hasher"} -> <<c.n, Min2(c.s, 8)>>
    [] OTHER -> <<>>
ShapeOK(c, shape) == Shape(c) # <<>> => shape = Shape(c)
SampledCalls == {"sampled_new", "sampled_with_samples", "sampled_with_hasher", "sampled_with_key_hasher", "sampled_with_samples_and_hasher",
                 "sampled_with_samples_and_key_hasher", "sampled_with_samples_and_key_hasher_and_hasher"}
\* the calls that supply hashers (C17: the configuration must not depend on them)
HasherCalls == {"raw_with_hasher", "raw_with_cb_and_hasher", "arc_builder", "arc_builder_perm", "slru_builder_setters", "slru_builder_perm",
                "2q_builder_hashers", "w_builder_hashers", "sampled_with_hasher", "sampled_with_key_hasher",
                "sampled_with_samples_and_hasher", "sampled_with_samples_and_key_hasher", "sampled_with_samples_and_key_hasher_and_hasher"}

\* Construction from an ORDERED source is a history too: the items are put in source order, so the
\* cache holds them most-recent-first in REVERSE source order, with capacity max(n, 1) (C06/C17:
\* the order does not depend on any hash map).  Sources whose own iteration order is unspecified
\* (HashSet, HashMap, BinaryHeap) are not constrained.  The harness builds from the items
\* (1,10), (2,20), ..., (n, 10n) and logs the keys most-recent-first plus cap().
OrderedSources == {"raw_from_vec", "raw_from_iter_nohint", "raw_from_slice", "raw_from_mut_slice", "raw_from_array",
                   "raw_from_vecdeque", "raw_from_linkedlist", "raw_from_btreeset", "raw_from_btreemap", "raw_collect"}
ExpectedOrder(n) == [i \in 1..n |-> n + 1 - i]
OrderOK(c, order, cap) == c.c \in OrderedSources => order = ExpectedOrder(c.n) /\ cap = (IF c.n = 0 THEN 1 ELSE c.n)

Grid ==
       [c : {"raw_new", "raw_with_hasher", "raw_with_cb", "raw_with_cb_and_hasher", "arc_new", "arc_builder", "2q_new"}, n : Sizes]
  \cup [c : {"slru_new", "slru_builder", "slru_builder_setters"}, a : Sizes, b : Sizes]
  \cup [c : {"2q_params", "2q_builder"}, n : Sizes, rr : Ratios, gr : Ratios]
  \cup [c : {"2q_builder_perm"}, perm : 0..5, n : {0, 1, 2, 8}, rr : {"neg", "zero", "quarter", "nan"}, gr : {"zero", "half", "two"}]
  \cup [c : {"w_builder_perm"}, perm : 0..5, w : {0, 1}, b : {0, 2}, a : {1}, s : {0, 4}, fp : {"nan", "quarter", "one"}]
  \cup [c : {"2q_with_recent_ratio"}, n : Sizes, rr : Ratios]
  \cup [c : {"2q_with_ghost_ratio"}, n : Sizes, gr : Ratios]
  \cup [c : {"w_with_sizes"}, w : {0, 1, 2}, b : {0, 1, 2}, a : {0, 1, 2}, s : SamplesSet]
  \cup [c : {"w_builder"}, w : {0, 1}, b : {0, 2}, a : {0, 1}, s : {0, 4}, fp : Fps]
  \cup [c : {"w_new"}, n : {0, 1, 8, 100, 1000}, s : SamplesSet]
  \cup [c : {"tinylfu_new"}, n : Sizes, s : SamplesSet, fp : Fps]
  \* large estimators (sketch rows of 64 KiB and more): construction and first use
  \cup [c : {"tinylfu_new"}, n : {131072, 131073, 1048576}, s : {4}, fp : {"quarter", "tiny"}]
  \cup [c : {"w_with_sizes"}, w : {2000}, b : {160000}, a : {40000}, s : {4}]
  \cup [c : {"raw_from_vec", "raw_from_iter_nohint", "raw_from_slice", "raw_from_mut_slice", "raw_from_array", "raw_from_vecdeque",
             "raw_from_linkedlist", "raw_from_hashset", "raw_from_btreeset", "raw_from_binaryheap", "raw_from_hashmap",
             "raw_from_btreemap", "raw_collect"}, n : Counts]
  \cup [c : {"sampled_new", "sampled_with_hasher", "sampled_with_key_hasher"}, n : {0, 5}]
  \cup [c : {"sampled_with_samples", "sampled_with_samples_and_hasher", "sampled_with_samples_and_key_hasher",
             "sampled_with_samples_and_key_hasher_and_hasher"}, n : {0, 5}, s : SamplesSet \cup {20}]
  \cup [c : {"arc_builder_perm"}, perm : 0..5, n : {0, 1, 3}]
  \cup [c : {"arc_from_builder"}, n : {0, 1, 3}]
  \cup [c : {"slru_builder_perm"}, perm : 0..5, a : {0, 1, 2}, b : {0, 1, 3}]
  \cup [c : {"2q_builder_hashers"}, perm : 0..5, n : {0, 2, 8}, rr : {"zero", "half", "two"}, gr : {"quarter", "one", "nan"}]
  \cup [c : {"2q_from_builder"}, n : {0, 2, 8}, rr : {"zero", "half", "two"}, gr : {"quarter", "one", "nan"}]
  \cup [c : {"w_builder_hashers"}, perm : 0..5, w : {0, 1, 2}, b : {0, 3}, a : {1, 2}, s : {0, 4}, fp : {"quarter", "nan"}]
  \cup [c : {"w_from_builder"}, w : {0, 1, 2}, b : {0, 3}, a : {1, 2}, s : {0, 4}, fp : {"quarter", "nan"}]
  \cup [c : {"arc_builder_default", "2q_builder_default", "slru_builder_default"}]
=============================================================================
