------------------------- MODULE TwoQueueLenProof -------------------------
(* TLAPS proof that IndInv is an inductive invariant of TwoQueueLen: a second, independent discharge of the     *)
(* Apalache result, for every value of the size constants.                                             *)
EXTENDS TwoQueueLen, TLAPS
ASSUME ConstAssump == S \in Nat /\ S >= 1 /\ QQ \in Int /\ QQ >= 0 /\ QQ <= S /\ GG \in Int /\ GG >= 1 /\ GG <= S
vars == <<r, f, g>>
TypeOK == r \in Int /\ f \in Int /\ g \in Int
THEOREM InitInv == Init => IndInv /\ TypeOK
  BY ConstAssump DEF Init, IndInv, TypeOK
THEOREM StepInv == IndInv /\ TypeOK /\ Next => IndInv' /\ TypeOK'
  BY ConstAssump DEF IndInv, TypeOK, Next, NextRel, VictimRel, PushGhost
THEOREM Safety == Init /\ [][Next]_vars => [](IndInv /\ TypeOK)
  <1>1. Init => IndInv /\ TypeOK BY InitInv
  <1>2. (IndInv /\ TypeOK) /\ [Next]_vars => (IndInv /\ TypeOK)'
    BY StepInv DEF vars, IndInv, TypeOK
  <1>. QED BY <1>1, <1>2, PTL
=============================================================================
