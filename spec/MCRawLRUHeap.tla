--------------------------- MODULE MCRawLRUHeap ---------------------------
(* Model-checking instance of RawLRUHeap.tla, plus the refinement into RawLRU.tla: in a panic-free      *)
(* history the list read off the heap (keys, order, value OBJECTS) is the list RawLRU.tla computes.      *)
EXTENDS RawLRUHeap
VARIABLE abs          \* shadow: the abstract RawLRU state, values are value tokens
RW == INSTANCE RawLRU
HeapList == [i \in 1..Len(Fwd) |-> [k |-> KeyValOf(heap, Fwd[i]), v |-> heap[Fwd[i]].val]]
AbsInit == abs = RW!RInit(Cap)
\* the abstract state advances when an operation COMPLETES (pc returns to idle) in a panic-free history
AbsNext ==
  IF panics' > 0 THEN abs' = abs
  ELSE IF pc'.op = "idle" /\ pc.op = "put" THEN abs' = RW!RApply([op |-> "put", k |-> pc.k, v |-> pc.tv], abs).st
  ELSE IF pc'.op = "idle" /\ pc.op = "remove" THEN abs' = [abs EXCEPT !.list = RW!Without(abs.list, tok[pc.rk].k)]
  ELSE IF pc'.op = "idle" /\ pc.op = "remove_lru" THEN abs' = RW!RRemoveLruOp(abs).st
  ELSE IF pc.op = "idle" /\ pc'.op = "idle" /\ heap' # heap /\ ~dropped' /\ index' = index
       THEN \* a get that hit: the touched key is the new first node
            abs' = RW!RGetOp(abs, KeyValOf(heap', heap'[H].next), 0).st
  ELSE abs' = abs
MCInit == Init /\ AbsInit
MCNext == Next /\ AbsNext
MCSpec == MCInit /\ [][MCNext]_<<vars, abs>>
Refines == (pc.op = "idle" /\ panics = 0 /\ ~dropped) => HeapList = abs.list
=============================================================================
