---------------------------- MODULE TwoQueueLen ----------------------------
(* Integer length abstraction of TwoQueue.tla (see AdaptiveLen.tla): lengths of recent, frequent *)
(* and ghost; size S, quota QQ and ghost capacity GG are symbolic (S >= 1, 0 <= QQ <= S, 1 <= GG <= S). *)
EXTENDS Integers
CONSTANTS
  \* @type: Int;
  S,
  \* @type: Int;
  QQ,
  \* @type: Int;
  GG
VARIABLES
  \* @type: Int;
  r,
  \* @type: Int;
  f,
  \* @type: Int;
  g
ConstInit == S \in Nat /\ S >= 1 /\ QQ \in Int /\ QQ >= 0 /\ QQ <= S /\ GG \in Int /\ GG >= 1 /\ GG <= S
PushGhost(n) == IF n >= GG THEN n ELSE n + 1
\* victim leaves recent (preferred and non-empty, or frequent empty) or frequent
VictimRel(prefer, x, y, xn, yn) ==
  IF (prefer /\ x > 0) \/ y = 0 THEN xn = x - 1 /\ yn = y ELSE xn = x /\ yn = y - 1
NextRel(x, y, z, xn, yn, zn) ==
  \/ xn = x /\ yn = y /\ zn = z                                   \* frequent hit, misses, reads
  \/ x > 0 /\ xn = x - 1 /\ yn = y + 1 /\ zn = z                  \* recent hit: promotion
  \/ /\ z > 0 /\ x + y < S /\ xn = x /\ yn = y + 1 /\ zn = z - 1  \* ghost hit with room
  \/ /\ z > 0 /\ x + y >= S                                       \* ghost hit, full: victim -> ghost, key -> frequent
     /\ \E m1, m2 \in 0..S : /\ VictimRel(x > QQ, x, y, m1, m2)
                             /\ xn = m1 /\ yn = m2 + 1
     /\ (zn = PushGhost(z) - 1 \/ (zn = PushGhost(z) /\ z >= GG))   \* hit key taken out (or it was the one pushed out)
  \/ x + y < S /\ xn = x + 1 /\ yn = y /\ zn = z                  \* new key with room
  \/ /\ x + y >= S                                                \* new key, full
     /\ \E m1, m2 \in 0..S : /\ VictimRel(x >= QQ, x, y, m1, m2)
                             /\ xn = m1 + 1 /\ yn = m2
     /\ zn = PushGhost(z)
  \/ x > 0 /\ xn = x - 1 /\ yn = y /\ zn = z                      \* remove
  \/ y > 0 /\ xn = x /\ yn = y - 1 /\ zn = z
  \/ z > 0 /\ xn = x /\ yn = y /\ zn = z - 1
  \/ xn = 0 /\ yn = 0 /\ zn = 0                                   \* purge
Init == r = 0 /\ f = 0 /\ g = 0
Next == NextRel(r, f, g, r', f', g')
IndInv == r >= 0 /\ f >= 0 /\ g >= 0 /\ r + f <= S /\ g <= GG
IndInit == r \in Int /\ f \in Int /\ g \in Int /\ IndInv
=============================================================================
