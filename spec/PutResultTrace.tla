--------------------------- MODULE PutResultTrace ---------------------------
EXTENDS PutResultEq, TLC, Json, IOUtils
Rec == ndJsonDeserialize(IOEnv.TRACE)
VARIABLES l
TInit == l = 1
Step == /\ l <= Len(Rec) /\ l' = l + 1
        /\ LET r == Rec[l] IN
           /\ r.eq = StructEq(r.a, r.b) /\ r.ne = ~StructEq(r.a, r.b)
           /\ r.clone_eq /\ r.copy_eq /\ r.clone_vs_b = StructEq(r.a, r.b)
           /\ r.back = r.a                      \* the value read back from the real object is the value built
           /\ r.clone_back = r.a                \* a clone carries every field (read back structurally, not through ==)
           /\ r.clone_from_back = r.a           \* b.clone_from(&a) turns b into a, whatever b was
TSpec == TInit /\ [][Step]_l
Accepted ==
  LET d == TLCGet("stats").diameter IN
  IF d - 1 = Len(Rec) THEN TRUE ELSE PrintT(<<"REJECT", d, ToJson(Rec[d])>>) /\ FALSE
=============================================================================
