--------------------------- MODULE WTinyLFUTrace ---------------------------
EXTENDS WTinyLFU, Props, Json, IOUtils
Rec == ndJsonDeserialize(IOEnv.TRACE)
PROP == IOEnv.PROP
VARIABLES l, base, cur
tvars == <<l, base, cur>>

(* Trace validation of the real WTinyLFUCache against WTinyLFU.tla; see TraceCore.tla.   *)
(* The admission verdict is taken from the REAL estimator: the estimates of candidate    *)
(* and victim logged in the pre-state observation (hooked view of the embedded TinyLFU). *)
StOf(o) == [win |-> o.win, main |-> [prob |-> o.prob, prot |-> o.prot]]
EstOf(o) == <<o.est, o.dk, o.w, o.sketch>>
FullState(o) == <<StOf(o), o.cap, EstOf(o)>>
OV(o) == ObsView(<<o.win, o.prob, o.prot>>, WRes, WBounds, W + A + B, o)
TokOf(o) == <<o.tok.win, o.tok.prob, o.tok.prot>>
SpecOps == {"put", "get", "get_mut", "peek", "peek_mut", "contains", "remove", "purge", "len", "cap", "is_empty"}
ReadOnlyOps == WReadOnly \cup {"peek_mut", "debug", "window_len", "window_cap", "main_len", "main_cap"}
AccessorsOK(o) ==
  /\ o.win_len = Len(o.win) /\ o.win_cap = W /\ o.main_len = Len(o.prob) + Len(o.prot) /\ o.main_cap = A + B
  /\ o.prob_len = Len(o.prob) /\ o.prot_len = Len(o.prot)
\* verdict of the real estimator in the pre-state: reject iff strictly lower (keys are 1..n, arrays 1-based)
AdmObs(o, s) == IF Len(s.win) = 0 \/ Len(s.main.prob) = 0 THEN "admit"
                ELSE IF o.est[WCandidate(s)] < o.est[WVictim(s)] THEN "reject" ELSE "admit"
\* what one recorded access of key k does to the observed estimator (exact for k, one-sided for others)
Ctr(o, k) == o.est[k] - (IF o.dk[k] THEN 1 ELSE 0)
AccessOK(pre, post, k) ==
  LET s == pre.samples
      w1 == IF pre.w + 1 >= s THEN 0 ELSE pre.w + 1          \* try_reset
      r1 == pre.w + 1 >= s
      c1 == IF r1 THEN Ctr(pre, k) \div 2 ELSE Ctr(pre, k)
      d1 == IF r1 THEN FALSE ELSE pre.dk[k]
      c2 == IF d1 THEN (IF c1 < 15 THEN c1 + 1 ELSE c1) ELSE c1  \* increment: doorkeeper first
      r2 == w1 + 1 >= s
      w2 == IF r2 THEN 0 ELSE w1 + 1
      c3 == IF r2 THEN c2 \div 2 ELSE c2
      d3 == IF r2 THEN FALSE ELSE TRUE
  IN /\ post.w = w2
     /\ post.dk[k] = d3
     /\ Ctr(post, k) = c3
EstimatorStep(pre, ev) ==
  CASE ev.op \in {"get", "get_mut"} -> AccessOK(pre, ev.obs, ev.k)
    [] ev.op = "purge" -> /\ \A k \in 1..Len(ev.obs.est) : ev.obs.est[k] = 0 /\ ~ev.obs.dk[k]
                          /\ ev.obs.w = 0
    [] OTHER -> EstOf(ev.obs) = EstOf(pre)
\* C10: the implementation's step is the specification's step under the real verdict
PolicyStep(pre, ev) ==
  IF ev.panic THEN FALSE
  ELSE IF ~WWellFormed(StOf(pre)) THEN TRUE
  \* clone mode: the copy is in the same abstract state and takes the same step
  ELSE IF ev.op = "clone" THEN ("unsupported" \in DOMAIN ev) \/ (StOf(ev.obs) = StOf(pre) /\ StOf(ev.obs2) = StOf(pre))
  ELSE IF ev.op = "both"
       THEN LET e2 == [ev EXCEPT !.op = ev.op2] IN
            IF ev.op2 \in SpecOps
            THEN LET x == WApply(e2, StOf(pre), AdmObs(pre, StOf(pre))) IN
                 x.st = StOf(ev.obs) /\ x.st = StOf(ev.obs2) /\ x.ret = ev.ret /\ x.ret = ev.ret2
            ELSE StOf(ev.obs) = StOf(pre) /\ StOf(ev.obs2) = StOf(pre)
  ELSE IF ev.op \in {"clone_only", "clone_dropped"} THEN StOf(ev.obs) = StOf(pre)
  ELSE /\ EstimatorStep(pre, ev)
       /\ IF ev.op \in SpecOps
          THEN LET x == WApply(ev, StOf(pre), AdmObs(pre, StOf(pre))) IN x.st = StOf(ev.obs) /\ x.ret = ev.ret
          ELSE StOf(ev.obs) = StOf(pre)

\* C16: a clone is observationally identical at the moment of cloning (capacity, every partition in
\* order with values, estimator state), behaves identically afterwards, and is independent
Same2(o1, o2) == /\ FullState(o2) = FullState(o1) /\ o2.contains = o1.contains /\ o2.peek = o1.peek
                 /\ o2.len = o1.len /\ o2.empty = o1.empty
C16Step(pre, ev) ==
  CASE ev.op = "clone" -> IF ev.panic THEN FALSE
                          ELSE IF "unsupported" \in DOMAIN ev THEN TRUE
                          ELSE Same2(ev.obs, ev.obs2) /\ FullState(ev.obs) = FullState(pre)
    [] ev.op = "both" -> ev.ret2 = ev.ret /\ Same2(ev.obs, ev.obs2)
                         /\ (IF "cb2" \in DOMAIN ev /\ "cb" \in DOMAIN ev THEN ev.cb2 = ev.cb ELSE TRUE)   \* the clone notifies like the original
    [] ev.op \in {"clone_only", "clone_dropped"} -> FullState(ev.obs) = FullState(pre)
    [] OTHER -> TRUE

\* predicates shared by all cache types, selected by PROP; policy property id: C10
Generic(pre, ev) ==
  \* (IF .. THEN TRUE ELSE ..: inside an action TLC evaluates BOTH sides of a disjunction)
  IF ev.op = "drop" /\ PROP \notin {"C04", "C18"} THEN TRUE
  \* a call that panicked is judged by C05 / C18; for the memory properties what the execution monitor saw DURING the call still
  \* counts (a key hashed out of an uninitialised or dead node, a double drop), whether or not the call returned
  ELSE IF ev.panic /\ PROP \notin {"C05", "C16", "C18", "C10"} THEN (IF PROP \in {"C03", "C04"} THEN ev.anomalies = <<>> ELSE TRUE)
  ELSE CASE PROP = "C01" -> \* (in clone mode the copy is a cache too: its bounds and accessors are judged as well)
                             (IF "len" \in DOMAIN ev.obs THEN C01View(OV(ev.obs)) /\ AccessorsOK(ev.obs) ELSE TRUE)
                             /\ (IF "obs2" \in DOMAIN ev /\ "len" \in DOMAIN ev.obs2 THEN C01View(OV(ev.obs2)) /\ AccessorsOK(ev.obs2) ELSE TRUE)
         [] PROP = "C02" -> C02Step(OV(pre), ev, OV(ev.obs))
         [] PROP = "C03" -> C03Audit(ev.obs) /\ ev.anomalies = <<>>
         [] PROP = "C04" -> C04Event(TokOf(pre), ev, IF ev.op = "drop" THEN <<>> ELSE TokOf(ev.obs))
         [] PROP = "C05" -> ~ev.panic
         [] PROP = "C16" -> C16Step(pre, ev)
         [] PROP = "C18" -> LET hasObs == "len" \in DOMAIN ev.obs IN
                            C18Event(ev, hasObs, IF hasObs THEN TokOf(ev.obs) ELSE <<>>, IF hasObs THEN ev.obs.audit ELSE <<>>)
         [] PROP = "C12" -> IF IsPutResult(EvPR(ev))
                            THEN C12Put(OV(pre), ev.k, ev.v, EvPR(ev), OV(ev.obs), FALSE) ELSE TRUE
         [] PROP = "C13" -> /\ ev.obs.stable
                            /\ (IF ev.op \in ReadOnlyOps /\ ~HasW(ev) THEN FullState(ev.obs) = FullState(pre) ELSE TRUE)
         [] PROP = "C10" -> PolicyStep(pre, ev)
JumpOK(ev) ==
  CASE PROP = "C03" -> C03Audit(ev.obs) /\ ev.anomalies = <<>>
    [] PROP = "C01" -> C01View(OV(ev.obs)) /\ AccessorsOK(ev.obs)
    [] PROP = "C04" -> C04Distinct(TokOf(ev.obs)) /\ ev.anomalies = <<>>
    [] OTHER -> TRUE
Check(pre, ev) == Generic(pre, ev)

TInit == l = 1 /\ base = [none |-> TRUE] /\ cur = [none |-> TRUE]
Step ==
  /\ l <= Len(Rec)
  /\ l' = l + 1
  /\ LET ev == Rec[l] IN
     IF ev.op = "jump"
     THEN /\ base' = ev.obs /\ cur' = ev.obs
          /\ JumpOK(ev)
     ELSE LET pre == IF ev.chain THEN cur ELSE base IN
          /\ Check(pre, ev)
          /\ base' = base
          /\ cur' = IF ev.panic \/ ev.op = "drop" THEN pre ELSE ev.obs
TSpec == TInit /\ [][Step]_tvars
Accepted ==
  LET d == TLCGet("stats").diameter IN
  IF d - 1 = Len(Rec) THEN TRUE
  ELSE PrintT(<<"REJECT", d, ToJson(Rec[d])>>) /\ FALSE
=============================================================================
