--------------------------- MODULE WTinyHeapTrace --------------------------
(***************************************************************************)
(* Binds the pointer-level model WTinyHeap.tla to the real WTinyLFUCache:   *)
(* trace validation of the FAULT-INJECTION traces (C18 mode of the         *)
(* harness), in the manner of HeapTrace.tla / SegHeapTrace.tla.  Each test *)
(* is: a jump (the three observed lists (window, probationary, protected) with their object tokens), the     *)
(* faulting call                                                            *)
(* (operation, tokens handed in, kind of user code made to panic and       *)
(* whether it fired, tokens dropped during the call including unwinding,   *)
(* tokens handed back, observation afterwards), then probes.  The model is *)
(* initialised from the observed pre-state (window nodes first, then       *)
(* probationary, then protected); the operation is started and its INSTRUCTIONS    *)
(* run as silent                                                            *)
(* steps with a panic allowed at any user-code call point; the event is    *)
(* EXPLAINED if some run ends in a state that matches everything observed: *)
(* the same objects dropped, the same objects handed back, the same three  *)
(* lists (object identities, in order) readable afterwards, and a panic    *)
(* exactly when the real call panicked.  An event the model cannot explain *)
(* is MODEL DRIFT (reported, not a violation): the model pins one          *)
(* statement order, the properties only forbid hazards.                    *)
(* Acceptance: register 1 holds the furthest record reached.               *)
(***************************************************************************)
EXTENDS WTinyHeap, Json, IOUtils
Rec == ndJsonDeserialize(IOEnv.TRACE)
VARIABLES l, phase, tok0
tvars == <<vars, l, phase, tok0>>

ModelledOps == {"put", "get", "get_mut", "remove"}
ModelledKinds == {"hash", "eq", "hasher", "keyhasher"}
SeqSet2(s) == {s[i] : i \in 1..Len(s)}
TokPairsOK(tl) == \A i \in 1..Len(tl) : tl[i][1] \in Toks /\ tl[i][2] \in Toks
InRange(o) == /\ Len(o.win) + Len(o.prob) + Len(o.prot) <= MaxPuts - 3
              /\ TokPairsOK(o.tok.win) /\ TokPairsOK(o.tok.prob) /\ TokPairsOK(o.tok.prot)
EventInRange(r) == \A i \in 1..Len(r["in"]) : r["in"][i] \in Toks

\* the model state that corresponds to an observed WTinyLFUCache: nodes 6.. are the window list (most recent first),
\* then the probationary list, then the protected list
ObsList(o, lst) == CASE lst = "W" -> o.win [] lst = "PB" -> o.prob [] lst = "PT" -> o.prot
ObsTok(o, lst) == CASE lst = "W" -> o.tok.win [] lst = "PB" -> o.tok.prob [] lst = "PT" -> o.tok.prot
Base(o, lst) == CASE lst = "W" -> 5 [] lst = "PB" -> 5 + Len(o.win) [] lst = "PT" -> 5 + Len(o.win) + Len(o.prob)
FromObs(o) ==
  LET ListOfNode(i) == IF i - 5 <= Len(o.win) THEN "W" ELSE IF i - 5 <= Len(o.win) + Len(o.prob) THEN "PB" ELSE "PT"
      total == Len(o.win) + Len(o.prob) + Len(o.prot)
  IN /\ heap' = [i \in Ptrs |->
                   IF i \in {0, 2, 4} THEN
                      LET lst == CHOOSE x \in Lists : HeadOf(x) = i  n == Len(ObsList(o, lst)) IN
                      Node("sentinel", 0, 0, i, IF n = 0 THEN i + 1 ELSE Base(o, lst) + 1)
                   ELSE IF i \in {1, 3, 5} THEN
                      LET lst == CHOOSE x \in Lists : TailOf(x) = i  n == Len(ObsList(o, lst)) IN
                      Node("sentinel", 0, 0, IF n = 0 THEN i - 1 ELSE Base(o, lst) + n, i)
                   ELSE IF i - 5 <= total THEN
                      LET lst == ListOfNode(i)  j == i - Base(o, lst)  n == Len(ObsList(o, lst)) IN
                      Node("live", ObsTok(o, lst)[j][1], ObsTok(o, lst)[j][2],
                           IF j = 1 THEN HeadOf(lst) ELSE i - 1, IF j = n THEN TailOf(lst) ELSE i + 1)
                   ELSE Node("unalloc", 0, 0, 0, 0)]
     /\ index' = UNION {{[l |-> lst, k |-> ObsList(o, lst)[j].k, n |-> Base(o, lst) + j] : j \in 1..Len(ObsList(o, lst))} : lst \in Lists}
     /\ tok' = [t \in Toks |->
                  IF \E lst \in Lists : \E j \in 1..Len(ObsList(o, lst)) : ObsTok(o, lst)[j][1] = t
                  THEN LET lst == CHOOSE x \in Lists : \E j \in 1..Len(ObsList(o, x)) : ObsTok(o, x)[j][1] = t
                           j == CHOOSE y \in 1..Len(ObsList(o, lst)) : ObsTok(o, lst)[y][1] = t
                       IN [k |-> ObsList(o, lst)[j].k, st |-> "live"]
                  ELSE IF \E lst \in Lists : \E j \in 1..Len(ObsList(o, lst)) : ObsTok(o, lst)[j][2] = t THEN [k |-> 0, st |-> "live"]
                  ELSE [k |-> 0, st |-> "unborn"]]
     /\ nputs' = 0 /\ prog' = <<>> /\ regs' = NoRegs /\ bad' = {} /\ panics' = 0

Advance == l' = l + 1 /\ TLCSet(1, IF TLCGet(1) < l + 1 THEN l + 1 ELSE TLCGet(1))
Keep == UNCHANGED vars

\* what the iterators show afterwards: the first len() nodes of each chain
ObservedList(lst) == [i \in 1..LenOf(lst) |-> <<heap[Fwd(lst)[i]].key, heap[Fwd(lst)[i]].val>>]
Match(r) ==
  /\ bad = {}
  /\ {t \in Toks : tok[t].st = "dropped" /\ tok0[t].st # "dropped"} = SeqSet2(r.drops)
  /\ {t \in Toks : tok[t].st = "returned" /\ tok0[t].st # "returned"} = SeqSet2(r.out)
  /\ r.panic = (panics > 0)
  /\ IF "win" \in DOMAIN r.obs
     THEN \A lst \in Lists : Len(Fwd(lst)) >= LenOf(lst) /\ ObservedList(lst) = ObsTok(r.obs, lst)
     ELSE TRUE

Start(r) ==
  CASE r.op = "put" -> StartPutT(r.k, r["in"][1], r["in"][2])
    [] r.op \in {"get", "get_mut"} -> StartGet(r.k)
    [] r.op = "remove" -> StartRemove(r.k)

TInit == Init /\ l = 1 /\ phase = "skip" /\ tok0 = tok /\ TLCSet(1, 1) /\ TLCSet(2, 0) /\ TLCSet(3, 0)
TNext ==
  IF l > Len(Rec) THEN FALSE
  ELSE LET r == Rec[l] IN
  IF phase = "run" THEN
       IF ~Idle
       THEN Exec /\ UNCHANGED <<l, phase, tok0>>
       ELSE /\ Match(r) /\ Advance /\ phase' = "skip" /\ Keep /\ UNCHANGED tok0
            /\ TLCSet(2, TLCGet(2) + 1) /\ (IF panics > 0 THEN TLCSet(3, TLCGet(3) + 1) ELSE TRUE)
  ELSE IF r.op = "jump" THEN
       IF r.obs.win_cap = WS /\ r.obs.main_cap = CA + CB /\ InRange(r.obs)
       THEN FromObs(r.obs) /\ Advance /\ phase' = "armed" /\ UNCHANGED tok0
       ELSE Keep /\ Advance /\ phase' = "skip" /\ UNCHANGED tok0
  ELSE IF /\ phase = "armed" /\ r.op \in ModelledOps /\ "in" \in DOMAIN r /\ EventInRange(r)
          /\ (IF r.op = "put" THEN Len(r["in"]) = 2 ELSE TRUE)
          /\ (IF "fault" \in DOMAIN r THEN r.fault.kind \in ModelledKinds ELSE ~r.chain)
       THEN Start(r) /\ tok0' = tok /\ phase' = "run" /\ l' = l
  ELSE Keep /\ Advance /\ phase' = "skip" /\ UNCHANGED tok0
TSpec == TInit /\ [][TNext]_tvars
Accepted ==
  LET d == TLCGet(1) IN
  IF d = Len(Rec) + 1 THEN PrintT(<<"EXPLAINED", TLCGet(2), "with-panic", TLCGet(3), "records", Len(Rec)>>)
  ELSE PrintT(<<"REJECT", d, ToJson(Rec[d])>>) /\ FALSE
=============================================================================
