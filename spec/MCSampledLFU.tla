---------------------------- MODULE MCSampledLFU ----------------------------
(* Model-checking / behaviour-generation instance of SampledLFU.tla. *)
EXTENDS SampledLFU, TLC, Json
CONSTANTS Keys, CostsN, Off, Maxes, Max0, Emit
\* TLC configuration files cannot spell negative numbers: costs are given shifted by Off
Costs == {c - Off : c \in CostsN}
VARIABLES st, hist
vars == <<st, hist>>
Ops == LOps(Keys, Costs, Maxes)
Init == st = LInit(Max0) /\ hist = <<>>
Step(o) == st' = LApply(o, st).st /\ hist' = Append(hist, o)
Next == \E o \in Ops : Step(o)
Spec == Init /\ [][Next]_vars
View == st
Inv == /\ Cardinality({x[1] : x \in st.costs}) = Cardinality(st.costs)
       /\ LRoom(st, 0) = st.max - LUsed(st)
StepOK == TRUE
\* JSON cannot carry TLA+ tuples-in-sets conveniently: paths only
EmitState == IF Emit THEN PrintT(<<"STATE", ToJson([path |-> hist])>>) ELSE TRUE
EmitOps == IF Emit THEN PrintT(<<"OPS", ToJson([ops |-> Ops])>>) ELSE TRUE
ASSUME EmitOps
=============================================================================
