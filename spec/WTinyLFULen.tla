---------------------------- MODULE WTinyLFULen ----------------------------
(* Integer length abstraction of WTinyLFU.tla: window (cap CW), probationary (CA), protected (CB); *)
(* the admission verdict is nondeterministic (any estimator).                                      *)
EXTENDS Integers
CONSTANTS
  \* @type: Int;
  CW,
  \* @type: Int;
  CA,
  \* @type: Int;
  CB
VARIABLES
  \* @type: Int;
  w,
  \* @type: Int;
  a,
  \* @type: Int;
  b
ConstInit == CW \in Nat /\ CW >= 1 /\ CA \in Nat /\ CA >= 1 /\ CB \in Nat /\ CB >= 1
\* SegmentedCache::put of a key that is new to the main cache
MainNew(x, y, xn, yn) == xn = (IF x >= CA THEN x ELSE x + 1) /\ yn = y
NextRel(u, x, y, un, xn, yn) ==
  \/ un = u /\ xn = x /\ yn = y                                       \* hits that only refresh, misses, reads
  \/ \* put on a window-resident key: to protected; protected's LRU is demoted into the window when full
     /\ u > 0 /\ xn = x
     /\ IF y >= CB THEN un = u /\ yn = y ELSE un = u - 1 /\ yn = y + 1
  \/ \* probationary hit in the main cache (get / put): promote (+ demote)
     /\ x > 0 /\ un = u /\ (IF y >= CB THEN xn = x /\ yn = y ELSE xn = x - 1 /\ yn = y + 1)
  \/ u < CW /\ un = u + 1 /\ xn = x /\ yn = y                         \* new key, window has room
  \/ \* new key, window full: candidate leaves the window; admitted (free room or verdict) or rejected
     /\ u >= CW /\ un = u
     /\ \/ MainNew(x, y, xn, yn)
        \/ x + y >= CA + CB /\ xn = x /\ yn = y
  \/ u > 0 /\ un = u - 1 /\ xn = x /\ yn = y                           \* remove
  \/ x > 0 /\ un = u /\ xn = x - 1 /\ yn = y
  \/ y > 0 /\ un = u /\ xn = x /\ yn = y - 1
  \/ un = 0 /\ xn = 0 /\ yn = 0                                        \* purge
Init == w = 0 /\ a = 0 /\ b = 0
Next == NextRel(w, a, b, w', a', b')
IndInv == w >= 0 /\ a >= 0 /\ b >= 0 /\ w <= CW /\ a <= CA /\ b <= CB
IndInit == w \in Int /\ a \in Int /\ b \in Int /\ IndInv
=============================================================================
