------------------------------ MODULE MCBorrow ------------------------------
(* TLC enumerates every (method x shape x via) client program and every                *)
(* (type x marker x element kind) transfer of Borrow.tla with the verdict the model     *)
(* assigns, and prints one PROBE line per instance for bin/c19.py, which renders each   *)
(* as a Rust function and asks rustc.  The tables come from BorrowTable.tla, a module   *)
(* GENERATED at check time from the library sources (it defines MethodTable and         *)
(* TypeTable); the configuration substitutes them for the constants of Borrow.tla:      *)
(*     CONSTANTS Methods <- MethodTable  Types <- TypeTable                             *)
(* Before printing, TLC checks that the tables are well formed and that the rules of    *)
(* Borrow.tla yield the verdict table stated in the property.                           *)
EXTENDS Borrow, BorrowTable, TLC, Json
VARIABLES done
Init == done = FALSE
Next == /\ ~done /\ done' = TRUE
        /\ Assert(TablesOK, "method / type table malformed")
        /\ Assert(BorrowRulesOK, "borrow rules do not yield the stated verdict table")
        /\ Assert(MarkerRulesOK, "marker rules do not yield the stated verdict table")
        /\ \A p \in BorrowProbes : PrintT(<<"PROBE", ToJson(p)>>)
        /\ \A p \in MarkerProbes : PrintT(<<"PROBE", ToJson(p)>>)
        /\ PrintT(<<"PROBES", Cardinality(BorrowProbes), Cardinality(MarkerProbes)>>)
Spec == Init /\ [][Next]_done
=============================================================================
