---------------------------- MODULE MCWTinyLFU ----------------------------
(* Model-checking / behaviour-generation instance of WTinyLFU.tla.                     *)
(* Mode = "abs" : the admission verdict comes from the abstract estimator, which is    *)
(*                part of the VIEW (so BFS paths exist that make the victim more       *)
(*                frequent than the candidate and "reject" is actually reached);       *)
(* Mode = "both": every admission decision is explored under BOTH verdicts (design-    *)
(*                level check of C01/C02/C12 for any estimator whatsoever).            *)
EXTENDS WTinyLFU, Props, Json
CONSTANTS Keys, Vals, Samples, Mode, Emit
VARIABLES st, est, hist
vars == <<st, est, hist>>
Ops == WOps(Keys, Vals)
V(s) == SpecView(WParts(s), WRes, WBounds, W + A + B)
Init == st = WInit /\ est = TLInit(Keys) /\ hist = <<>>
Verdicts == IF Mode = "both" THEN {"admit", "reject"} ELSE {WAdmAbs(st, est)}
Step(o, adm) ==
  /\ st' = WApply(o, st, adm).st
  /\ est' = IF Mode = "both" THEN est ELSE WEstApply(o, est, Samples)
  /\ hist' = Append(hist, o @@ [adm |-> adm])
Next == \E o \in Ops : \E adm \in Verdicts : Step(o, adm)
Spec == Init /\ [][Next]_vars
View == <<st, est>>
Inv == WWellFormed(st) /\ C01View(V(st))
\* refinement into the integer abstraction WTinyLFULen (bounds proved by Apalache for all capacities, any estimator)
WL == INSTANCE WTinyLFULen WITH CW <- W, CA <- A, CB <- B, w <- Len(st.win), a <- Len(st.main.prob), b <- Len(st.main.prot)
StepOK == LET o == hist'[Len(hist')]
              x == WApply(o, st, o.adm)
              n == x.st
          IN /\ GenericStepOK(V(st), o @@ [ret |-> x.ret], V(x.st), WReadOnly, FALSE)
             /\ Assert(WL!NextRel(Len(st.win), Len(st.main.prob), Len(st.main.prot), Len(n.win), Len(n.main.prob), Len(n.main.prot)),
                       <<"step is not a step of WTinyLFULen", st, o, n>>)
EmitState == IF Emit THEN PrintT(<<"STATE", ToJson([path |-> hist])>>) ELSE TRUE
EmitOps == IF Emit THEN PrintT(<<"OPS", ToJson([ops |-> Ops])>>) ELSE TRUE
ASSUME EmitOps
ASSUME W >= 1 /\ A >= 1 /\ B >= 1 /\ Samples >= 1
=============================================================================
