--------------------------- MODULE SegHeapTrace ---------------------------
(***************************************************************************)
(* Binds the pointer-level hand-over model SegHeap.tla to the real         *)
(* SegmentedCache: trace validation of the FAULT-INJECTION traces (C18     *)
(* mode of the harness), in the manner of HeapTrace.tla.  Each test is: a  *)
(* jump (both observed lists with their object tokens), the faulting call  *)
(* (operation, tokens handed in, kind of user code made to panic and       *)
(* whether it fired, tokens dropped during the call including unwinding,   *)
(* tokens handed back, observation afterwards), then probes.  The model is *)
(* initialised from the observed pre-state (probationary nodes first, then *)
(* protected); the operation is started and its MICRO-STEPS run as silent  *)
(* steps with a panic allowed at any user-code call point; the event is    *)
(* EXPLAINED if some run ends in a state that matches everything observed: *)
(* the same objects dropped, the same objects handed back, the same two    *)
(* lists (object identities, in order) readable afterwards, and a panic    *)
(* exactly when the real call panicked.  An event the model cannot explain *)
(* is MODEL DRIFT (reported, not a violation): the model pins one          *)
(* statement order, the properties only forbid hazards.                    *)
(* Acceptance: register 1 holds the furthest record reached.               *)
(***************************************************************************)
EXTENDS SegHeap, Json, IOUtils
Rec == ndJsonDeserialize(IOEnv.TRACE)
VARIABLES l, phase, tok0
tvars == <<vars, l, phase, tok0>>

ModelledOps == {"put", "get", "get_mut", "remove"}
ModelledKinds == {"hash", "eq", "hasher"}
SeqSet2(s) == {s[i] : i \in 1..Len(s)}
TokPairsOK(tl) == \A i \in 1..Len(tl) : tl[i][1] \in Toks /\ tl[i][2] \in Toks
InRange(o) == /\ Len(o.prob) + Len(o.prot) <= MaxPuts - 3
              /\ TokPairsOK(o.tok.prob) /\ TokPairsOK(o.tok.prot)
EventInRange(r) == \A i \in 1..Len(r["in"]) : r["in"][i] \in Toks

\* the model state that corresponds to an observed SegmentedCache: nodes 4..3+np are the probationary list (most recent
\* first), nodes 4+np..3+np+nr the protected list
FromObs(o) ==
  LET np == Len(o.prob)
      nr == Len(o.prot)
      pn(i) == 3 + i
      rn(i) == 3 + np + i
      kt(lst, i) == IF lst = "P" THEN o.tok.prob[i][1] ELSE o.tok.prot[i][1]
      vt(lst, i) == IF lst = "P" THEN o.tok.prob[i][2] ELSE o.tok.prot[i][2]
  IN /\ heap' = [i \in Ptrs |->
                   IF i = 0 THEN Node("sentinel", 0, 0, 0, IF np = 0 THEN 1 ELSE pn(1))
                   ELSE IF i = 1 THEN Node("sentinel", 0, 0, IF np = 0 THEN 0 ELSE pn(np), 1)
                   ELSE IF i = 2 THEN Node("sentinel", 0, 0, 2, IF nr = 0 THEN 3 ELSE rn(1))
                   ELSE IF i = 3 THEN Node("sentinel", 0, 0, IF nr = 0 THEN 2 ELSE rn(nr), 3)
                   ELSE IF i - 3 <= np
                        THEN LET j == i - 3 IN Node("live", kt("P", j), vt("P", j), IF j = 1 THEN 0 ELSE i - 1, IF j = np THEN 1 ELSE i + 1)
                   ELSE IF i - 3 - np <= nr
                        THEN LET j == i - 3 - np IN Node("live", kt("R", j), vt("R", j), IF j = 1 THEN 2 ELSE i - 1, IF j = nr THEN 3 ELSE i + 1)
                   ELSE Node("unalloc", 0, 0, 0, 0)]
     /\ index' = {[l |-> "P", k |-> o.prob[i].k, n |-> pn(i)] : i \in 1..np}
                 \cup {[l |-> "R", k |-> o.prot[i].k, n |-> rn(i)] : i \in 1..nr}
     /\ tok' = [t \in Toks |->
                  IF \E i \in 1..np : kt("P", i) = t THEN [k |-> o.prob[CHOOSE i \in 1..np : kt("P", i) = t].k, st |-> "live"]
                  ELSE IF \E i \in 1..nr : kt("R", i) = t THEN [k |-> o.prot[CHOOSE i \in 1..nr : kt("R", i) = t].k, st |-> "live"]
                  ELSE IF (\E i \in 1..np : vt("P", i) = t) \/ (\E i \in 1..nr : vt("R", i) = t) THEN [k |-> 0, st |-> "live"]
                  ELSE [k |-> 0, st |-> "unborn"]]
     /\ nputs' = 0 /\ pc' = Idle /\ bad' = {} /\ panics' = 0

Advance == l' = l + 1 /\ TLCSet(1, IF TLCGet(1) < l + 1 THEN l + 1 ELSE TLCGet(1))
Keep == UNCHANGED vars

\* what the iterators show afterwards: the first len() nodes of each chain
ObservedList(lst) == [i \in 1..LenOf(lst) |-> <<heap[Fwd(lst)[i]].key, heap[Fwd(lst)[i]].val>>]
Match(r) ==
  /\ bad = {}
  /\ {t \in Toks : tok[t].st = "dropped" /\ tok0[t].st # "dropped"} = SeqSet2(r.drops)
  /\ {t \in Toks : tok[t].st = "returned" /\ tok0[t].st # "returned"} = SeqSet2(r.out)
  /\ r.panic = (panics > 0)
  /\ IF "prob" \in DOMAIN r.obs
     THEN /\ Len(Fwd("P")) >= LenOf("P") /\ ObservedList("P") = r.obs.tok.prob
          /\ Len(Fwd("R")) >= LenOf("R") /\ ObservedList("R") = r.obs.tok.prot
     ELSE TRUE

Start(r) ==
  CASE r.op = "put" -> StartPutT(r.k, r["in"][1], r["in"][2])
    [] r.op \in {"get", "get_mut"} -> Get(r.k)
    [] r.op = "remove" -> Remove(r.k)

TInit == Init /\ l = 1 /\ phase = "skip" /\ tok0 = tok /\ TLCSet(1, 1) /\ TLCSet(2, 0) /\ TLCSet(3, 0)
TNext ==
  IF l > Len(Rec) THEN FALSE
  ELSE LET r == Rec[l] IN
  IF phase = "run" THEN
       IF pc.op # "idle"
       THEN Micro /\ UNCHANGED <<l, phase, tok0>>
       ELSE /\ Match(r) /\ Advance /\ phase' = "skip" /\ Keep /\ UNCHANGED tok0
            /\ TLCSet(2, TLCGet(2) + 1) /\ (IF panics > 0 THEN TLCSet(3, TLCGet(3) + 1) ELSE TRUE)
  ELSE IF r.op = "jump" THEN
       IF r.obs.prob_cap = CA /\ r.obs.prot_cap = CB /\ InRange(r.obs)
       THEN FromObs(r.obs) /\ Advance /\ phase' = "armed" /\ UNCHANGED tok0
       ELSE Keep /\ Advance /\ phase' = "skip" /\ UNCHANGED tok0
  ELSE IF /\ phase = "armed" /\ r.op \in ModelledOps /\ "in" \in DOMAIN r /\ EventInRange(r)
          /\ (IF r.op = "put" THEN Len(r["in"]) = 2 ELSE TRUE)
          /\ (IF "fault" \in DOMAIN r THEN r.fault.kind \in ModelledKinds ELSE ~r.chain)
       THEN Start(r) /\ tok0' = tok /\ phase' = "run" /\ l' = l
  ELSE Keep /\ Advance /\ phase' = "skip" /\ UNCHANGED tok0
TSpec == TInit /\ [][TNext]_tvars
Accepted ==
  LET d == TLCGet(1) IN
  IF d = Len(Rec) + 1 THEN PrintT(<<"EXPLAINED", TLCGet(2), "with-panic", TLCGet(3), "records", Len(Rec)>>)
  ELSE PrintT(<<"REJECT", d, ToJson(Rec[d])>>) /\ FALSE
=============================================================================
