--------------------------- MODULE TwoQueueTrace ---------------------------
EXTENDS TwoQueue, Props, Json, IOUtils
Rec == ndJsonDeserialize(IOEnv.TRACE)
PROP == IOEnv.PROP
VARIABLES l, base, cur
tvars == <<l, base, cur>>

(* Trace validation of the real TwoQueueCache against TwoQueue.tla; see TraceCore.tla. *)
StOf(o) == [recent |-> o.recent, frequent |-> o.frequent, ghost |-> o.ghost]
FullState(o) == <<StOf(o), o.cap, o.q, o.g>>
OV(o) == ObsView(<<o.recent, o.frequent, o.ghost>>, QRes, QBounds, Size, o)
TokOf(o) == <<o.tok.recent, o.tok.frequent, o.tok.ghost>>
SpecOps == {"put", "get", "get_mut", "peek", "peek_mut", "contains", "remove", "purge", "len", "cap", "is_empty"}
ReadOnlyOps == QReadOnly \cup {"peek_mut", "debug"}
AccessorsOK(o) ==
  /\ o.recent_len = Len(o.recent) /\ o.frequent_len = Len(o.frequent) /\ o.ghost_len = Len(o.ghost)
\* C08: the implementation's step is the specification's step; quota and ghost bound are
\* floor(size x ratio), i.e. the Q and G this instance was configured with
PolicyStep(pre, ev) ==
  IF ev.panic THEN FALSE
  ELSE IF ~QWellFormed(StOf(pre)) THEN TRUE
  ELSE /\ ev.obs.q = Q /\ ev.obs.g = G
       /\ IF ev.op \in SpecOps
          THEN LET x == QApply(ev, StOf(pre)) IN x.st = StOf(ev.obs) /\ x.ret = ev.ret
          ELSE StOf(ev.obs) = StOf(pre)

\* predicates shared by all cache types, selected by PROP; policy property id: C08
Generic(pre, ev) ==
  CASE PROP = "C01" -> ev.panic \/ ev.op = "drop" \/ (C01View(OV(ev.obs)) /\ AccessorsOK(ev.obs))
    [] PROP = "C02" -> ev.panic \/ ev.op = "drop" \/ C02Step(OV(pre), ev, OV(ev.obs))
    [] PROP = "C03" -> ev.panic \/ ev.op = "drop" \/ (C03Audit(ev.obs) /\ ev.anomalies = <<>>)
    [] PROP = "C04" -> ev.panic \/ C04Event(TokOf(pre), ev, IF ev.op = "drop" THEN <<>> ELSE TokOf(ev.obs))
    [] PROP = "C05" -> ~ev.panic
    [] PROP = "C12" -> ev.panic \/ ev.op = "drop" \/ ~IsPutResult(EvPR(ev))
                         \/ C12Put(OV(pre), ev.k, ev.v, EvPR(ev), OV(ev.obs), FALSE)
    [] PROP = "C13" -> ev.panic \/ ev.op = "drop" \/
                         (ev.obs.stable /\ (ev.op \in ReadOnlyOps /\ ~HasW(ev) => FullState(ev.obs) = FullState(pre)))
    [] PROP = "C08" -> ev.op = "drop" \/ PolicyStep(pre, ev)
JumpOK(ev) ==
  /\ (PROP = "C03" => C03Audit(ev.obs) /\ ev.anomalies = <<>>)
  /\ (PROP = "C01" => C01View(OV(ev.obs)) /\ AccessorsOK(ev.obs))
  /\ (PROP = "C04" => C04Distinct(TokOf(ev.obs)) /\ ev.anomalies = <<>>)
Check(pre, ev) == Generic(pre, ev)

TInit == l = 1 /\ base = [none |-> TRUE] /\ cur = [none |-> TRUE]
Step ==
  /\ l <= Len(Rec)
  /\ l' = l + 1
  /\ LET ev == Rec[l] IN
     IF ev.op = "jump"
     THEN /\ base' = ev.obs /\ cur' = ev.obs
          /\ JumpOK(ev)
     ELSE LET pre == IF ev.chain THEN cur ELSE base IN
          /\ Check(pre, ev)
          /\ base' = base
          /\ cur' = IF ev.panic \/ ev.op = "drop" THEN pre ELSE ev.obs
TSpec == TInit /\ [][Step]_tvars
Accepted ==
  LET d == TLCGet("stats").diameter IN
  IF d - 1 = Len(Rec) THEN TRUE
  ELSE PrintT(<<"REJECT", d, ToJson(Rec[d])>>) /\ FALSE
=============================================================================
