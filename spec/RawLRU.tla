----------------------------- MODULE RawLRU -----------------------------
(***************************************************************************)
(* RawLRU / LRUCache: one recency list with a capacity.                    *)
(* State: [list |-> recency list, cap |-> capacity].                       *)
(* RApply(op, s) = [st, ret, cb]: successor state, return value and the    *)
(* sequence of <<k, v>> pairs the eviction callback must receive during    *)
(* the call (C15).  One operator per public method; the linearization      *)
(* point of this sequential library is the return of the call.             *)
(*                                                                         *)
(* op.w (where present) is the value written through the returned mutable  *)
(* reference; 0 means "reference taken, nothing written".                  *)
(***************************************************************************)
EXTENDS LRUList

RInit(c) == [list |-> <<>>, cap |-> c]
R3(st, ret, cb) == [st |-> st, ret |-> ret, cb |-> cb]
WriteIf(l, k, w) == IF w = 0 THEN l ELSE SetVal(l, k, w)

RPutOp(s, k, v) ==
  IF Has(s.list, k)
  THEN R3([s EXCEPT !.list = PushMRU(Without(s.list, k), Ent(k, v))], RUpdate(ValOf(s.list, k)), <<>>)
  ELSE IF s.cap = 0
  THEN R3(s, REvicted(Ent(k, v)), <<>>)          \* capacity 0 (after resize(0)): pair handed straight back
  ELSE IF Len(s.list) >= s.cap
  THEN LET e == LRUOf(s.list) IN
       R3([s EXCEPT !.list = PushMRU(DropLRU(s.list), Ent(k, v))], REvicted(e), <<<<e.k, e.v>>>>)
  ELSE R3([s EXCEPT !.list = PushMRU(s.list, Ent(k, v))], RPut, <<>>)

\* get / get_mut: a hit is a use (moves to front); w # 0 writes through the reference
RGetOp(s, k, w) ==
  IF Has(s.list, k)
  THEN R3([s EXCEPT !.list = WriteIf(Touch(s.list, k), k, w)], RSome(ValOf(s.list, k)), <<>>)
  ELSE R3(s, RNone, <<>>)

\* peek / peek_mut: never reorders
RPeekOp(s, k, w) ==
  IF Has(s.list, k)
  THEN R3([s EXCEPT !.list = WriteIf(s.list, k, w)], RSome(ValOf(s.list, k)), <<>>)
  ELSE R3(s, RNone, <<>>)

RContainsOp(s, k) == R3(s, RBool(Has(s.list, k)), <<>>)

RRemoveOp(s, k) ==
  IF Has(s.list, k)
  THEN R3([s EXCEPT !.list = Without(s.list, k)], RSome(ValOf(s.list, k)), <<<<k, ValOf(s.list, k)>>>>)
  ELSE R3(s, RNone, <<>>)

RRemoveLruOp(s) ==
  IF Len(s.list) = 0 THEN R3(s, RNone, <<>>)
  ELSE LET e == LRUOf(s.list) IN R3([s EXCEPT !.list = DropLRU(s.list)], RSomeKV(e), <<<<e.k, e.v>>>>)

\* callbacks of purge/resize: departing entries in LRU -> MRU order
CbLruFirst(l) == [i \in 1..Len(l) |-> <<l[Len(l) + 1 - i].k, l[Len(l) + 1 - i].v>>]

RPurgeOp(s) == R3([s EXCEPT !.list = <<>>], RUnit, CbLruFirst(s.list))

RResizeOp(s, n) ==
  IF n = s.cap THEN R3(s, RInt(0), <<>>)
  ELSE LET len  == Len(s.list)
           drop == IF len > n THEN len - n ELSE 0
       IN R3([list |-> SubSeq(s.list, 1, len - drop), cap |-> n], RInt(drop),
             CbLruFirst(SubSeq(s.list, len - drop + 1, len)))

\* get_lru / get_lru_mut: a use of the LRU entry (it becomes the MRU)
RGetLruOp(s, w) ==
  IF Len(s.list) = 0 THEN R3(s, RNone, <<>>)
  ELSE LET e == LRUOf(s.list) IN
       R3([s EXCEPT !.list = WriteIf(PushMRU(DropLRU(s.list), e), e.k, w)], RSomeKV(e), <<>>)
\* get_mru / get_mru_mut / peek_mru / peek_mru_mut: name the MRU entry, no reordering
RMruOp(s, w) ==
  IF Len(s.list) = 0 THEN R3(s, RNone, <<>>)
  ELSE LET e == MRUOf(s.list) IN R3([s EXCEPT !.list = WriteIf(s.list, e.k, w)], RSomeKV(e), <<>>)
\* peek_lru / peek_lru_mut
RPeekLruOp(s, w) ==
  IF Len(s.list) = 0 THEN R3(s, RNone, <<>>)
  ELSE LET e == LRUOf(s.list) IN R3([s EXCEPT !.list = WriteIf(s.list, e.k, w)], RSomeKV(e), <<>>)

RPeekOrPutOp(s, k, v, w) ==
  IF Has(s.list, k)
  THEN R3([s EXCEPT !.list = WriteIf(s.list, k, w)], RPair(RSome(ValOf(s.list, k)), RNone), <<>>)
  ELSE LET x == RPutOp(s, k, v) IN R3(x.st, RPair(RNone, x.ret), x.cb)

RContainsOrPutOp(s, k, v) ==
  IF Has(s.list, k) THEN R3(s, RPair(RBool(TRUE), RNone), <<>>)
  ELSE LET x == RPutOp(s, k, v) IN R3(x.st, RPair(RBool(FALSE), x.ret), x.cb)

RReadOnlyOps == {"peek", "contains", "len", "cap", "is_empty", "peek_lru", "peek_mru", "get_mru", "ro"}

RApply(op, s) ==
  CASE op.op = "put"             -> RPutOp(s, op.k, op.v)
    [] op.op = "get"             -> RGetOp(s, op.k, 0)
    [] op.op = "get_mut"         -> RGetOp(s, op.k, op.w)
    [] op.op = "peek"            -> RPeekOp(s, op.k, 0)
    [] op.op = "peek_mut"        -> RPeekOp(s, op.k, op.w)
    [] op.op = "contains"        -> RContainsOp(s, op.k)
    [] op.op = "remove"          -> RRemoveOp(s, op.k)
    [] op.op = "remove_lru"      -> RRemoveLruOp(s)
    [] op.op = "purge"           -> RPurgeOp(s)
    [] op.op = "resize"          -> RResizeOp(s, op.n)
    [] op.op = "get_lru"         -> RGetLruOp(s, 0)
    [] op.op = "get_lru_mut"     -> RGetLruOp(s, op.w)
    [] op.op = "get_mru"         -> RMruOp(s, 0)
    [] op.op = "get_mru_mut"     -> RMruOp(s, op.w)
    [] op.op = "peek_mru"        -> RMruOp(s, 0)
    [] op.op = "peek_mru_mut"    -> RMruOp(s, op.w)
    [] op.op = "peek_lru"        -> RPeekLruOp(s, 0)
    [] op.op = "peek_lru_mut"    -> RPeekLruOp(s, op.w)
    [] op.op = "peek_or_put"     -> RPeekOrPutOp(s, op.k, op.v, 0)
    [] op.op = "peek_mut_or_put" -> RPeekOrPutOp(s, op.k, op.v, op.w)
    [] op.op = "contains_or_put" -> RContainsOrPutOp(s, op.k, op.v)
    [] op.op = "len"             -> R3(s, RInt(Len(s.list)), <<>>)
    [] op.op = "cap"             -> R3(s, RInt(s.cap), <<>>)
    [] op.op = "is_empty"        -> R3(s, RBool(Len(s.list) = 0), <<>>)
    [] op.op = "ro"              -> R3(s, RUnit, <<>>)

\* alphabet over a key set, a value set and a set of resize targets
ROps(Keys, Vals, Sizes) ==
  LET W == Vals \cup {0} IN
       [op : {"put", "peek_or_put", "contains_or_put"}, k : Keys, v : Vals]
  \cup [op : {"peek_mut_or_put"}, k : Keys, v : Vals, w : W]
  \cup [op : {"get", "remove"}, k : Keys]
  \cup [op : {"get_mut", "peek_mut"}, k : Keys, w : W]
  \cup [op : {"get_lru_mut", "get_mru_mut", "peek_lru_mut", "peek_mru_mut"}, w : W]
  \cup [op : {"remove_lru", "purge", "get_lru", "ro"}]
  \cup [op : {"resize"}, n : Sizes]

RWellFormed(s) == Len(s.list) <= s.cap /\ NoDupKeys(s.list)
\* normalised-view ingredients (see Props.tla)
RParts(s) == <<s.list>>
RRes == {1}
RBounds(s) == <<s.cap>>
=============================================================================
