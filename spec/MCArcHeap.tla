----------------------------- MODULE MCArcHeap -----------------------------
(* Model-checking instance of ArcHeap.tla plus the refinement into Adaptive.tla: in a panic-free history the four  *)
(* lists read off the heap and the target p are what Adaptive.tla computes (same keys, same order, same value objects).       *)
EXTENDS ArcHeap
VARIABLES abs
AD == INSTANCE Adaptive
HeapList(l) == [i \in 1..Len(Fwd(l)) |-> [k |-> KeyValOf(heap, Fwd(l)[i]), v |-> heap[Fwd(l)[i]].val]]
MCInit == Init /\ abs = AD!AInit
Track ==
  abs' = IF panics' > 0 THEN abs
         ELSE IF prog # <<>> /\ prog' = <<>> THEN
              (CASE regs.op = "put" -> AD!APut(abs, regs.k, 2 * nputs).st
                 [] regs.op = "get" -> AD!AGet(abs, regs.k, 0).st
                 [] regs.op = "remove" -> AD!ARemove(abs, regs.k).st)
         ELSE abs
MCNext == Next /\ Track
MCSpec == MCInit /\ [][MCNext]_<<vars, abs>>
Refines == (Idle /\ panics = 0) =>
              /\ HeapList("T1") = abs.t1 /\ HeapList("T2") = abs.t2 /\ HeapList("B1") = abs.b1 /\ HeapList("B2") = abs.b2
              /\ tgt = abs.p
=============================================================================
