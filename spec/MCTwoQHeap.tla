---------------------------- MODULE MCTwoQHeap ----------------------------
(* Model-checking instance of TwoQHeap.tla plus the refinement into TwoQueue.tla: in a panic-free history the three *)
(* lists read off the heap are the lists TwoQueue.tla computes (same keys, same order, same value objects).         *)
EXTENDS TwoQHeap
VARIABLES abs
TQ == INSTANCE TwoQueue WITH G <- GS
HeapList(l) == [i \in 1..Len(Fwd(l)) |-> [k |-> KeyValOf(heap, Fwd(l)[i]), v |-> heap[Fwd(l)[i]].val]]
MCInit == Init /\ abs = TQ!QInit
\* the abstract operation is applied when the pointer-level operation completes normally; `cur` is read off the registers
\* as they were when the operation started (k and the value object handed in never change: tv0 is kept in `new`... no:
\* the value handed in is 2 * nputs, the last minted token)
Track ==
  abs' = IF panics' > 0 THEN abs
         ELSE IF prog # <<>> /\ prog' = <<>> THEN
              (CASE regs.op = "put" -> TQ!QPut(abs, regs.k, 2 * nputs).st
                 [] regs.op = "get" -> TQ!QGet(abs, regs.k, 0).st
                 [] regs.op = "remove" -> TQ!QRemove(abs, regs.k).st)
         ELSE abs
MCNext == Next /\ Track
MCSpec == MCInit /\ [][MCNext]_<<vars, abs>>
Refines == (Idle /\ panics = 0) =>
              /\ HeapList("A1") = abs.recent /\ HeapList("AM") = abs.frequent /\ HeapList("G") = abs.ghost
=============================================================================
