---------------------------- MODULE MCTwoQueue ----------------------------
(* Model-checking / behaviour-generation instance of TwoQueue.tla (see MCAdaptive.tla). *)
EXTENDS TwoQueue, Props, Json
CONSTANTS Keys, Vals, Emit
VARIABLES st, hist
vars == <<st, hist>>
Ops == QOps(Keys, Vals)
V(s) == SpecView(QParts(s), QRes, QBounds, Size)
Init == st = QInit /\ hist = <<>>
Step(o) == st' = QApply(o, st).st /\ hist' = Append(hist, o)
Next == \E o \in Ops : Step(o)
Spec == Init /\ [][Next]_vars
View == st
Inv == QWellFormed(st) /\ C01View(V(st))
\* refinement into the integer abstraction TwoQueueLen (bounds proved by Apalache for every size/quota/ghost capacity)
QL == INSTANCE TwoQueueLen WITH S <- Size, QQ <- Q, GG <- G, r <- Len(st.recent), f <- Len(st.frequent), g <- Len(st.ghost)
StepOK == LET o == hist'[Len(hist')]
              x == QApply(o, st)
              n == x.st
          IN /\ GenericStepOK(V(st), o @@ [ret |-> x.ret], V(x.st), QReadOnly, FALSE)
             /\ Assert(QL!NextRel(Len(st.recent), Len(st.frequent), Len(st.ghost), Len(n.recent), Len(n.frequent), Len(n.ghost)),
                       <<"step is not a step of TwoQueueLen", st, o, n>>)
EmitState == IF Emit THEN PrintT(<<"STATE", ToJson([path |-> hist])>>) ELSE TRUE
EmitOps == IF Emit THEN PrintT(<<"OPS", ToJson([ops |-> Ops])>>) ELSE TRUE
ASSUME EmitOps
ASSUME Size >= 1 /\ G >= 1 /\ G <= Size /\ Q >= 0 /\ Q <= Size
=============================================================================
