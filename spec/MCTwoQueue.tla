---------------------------- MODULE MCTwoQueue ----------------------------
(* Model-checking / behaviour-generation instance of TwoQueue.tla (see MCAdaptive.tla). *)
EXTENDS TwoQueue, Props, Json
CONSTANTS Keys, Vals, Emit
VARIABLES st, hist
vars == <<st, hist>>
Ops == QOps(Keys, Vals)
V(s) == SpecView(QParts(s), QRes, QBounds, Size)
Init == st = QInit /\ hist = <<>>
Step(o) == st' = QApply(o, st).st /\ hist' = Append(hist, o)
Next == \E o \in Ops : Step(o)
Spec == Init /\ [][Next]_vars
View == st
Inv == QWellFormed(st) /\ C01View(V(st))
StepOK == LET o == hist'[Len(hist')]
              x == QApply(o, st)
          IN GenericStepOK(V(st), o @@ [ret |-> x.ret], V(x.st), QReadOnly, FALSE)
EmitState == IF Emit THEN PrintT(<<"STATE", ToJson([path |-> hist])>>) ELSE TRUE
EmitOps == IF Emit THEN PrintT(<<"OPS", ToJson([ops |-> Ops])>>) ELSE TRUE
ASSUME EmitOps
ASSUME Size >= 1 /\ G >= 1 /\ G <= Size /\ Q >= 0 /\ Q <= Size
=============================================================================
