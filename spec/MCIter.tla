------------------------------ MODULE MCIter ------------------------------
(* TLC enumerates every list of length <= MaxLen over distinct keys, both kinds, all three  *)
(* projections and EVERY word over {next, next_back} of length <= len + 2, and checks the   *)
(* properties C14 states on the cursor machine itself: each entry exactly once, never twice *)
(* and never skipped when both ends are mixed, exact size hints, exhausted stays exhausted, *)
(* lru = reverse of mru, keys/values are projections of the entry iterators.               *)
EXTENDS Iter, FiniteSets, TLC
CONSTANTS MaxLen
VARIABLES done
Lists == UNION {{[i \in 1..n |-> Ent(i, 10 + i)]} : n \in 0..MaxLen}
Yielded(r) == {r.yields[i] : i \in {j \in 1..Len(r.yields) : r.yields[j] # NoItem}}
OK(list, kind, word) ==
  LET r == Run(list, kind, "kv", word)
      n == Len(list)
      got == SelectSeq(r.yields, LAMBDA y : y # NoItem)
  IN /\ Len(got) = (IF Len(word) < n THEN Len(word) ELSE n)          \* one entry per step until exhausted
     /\ Cardinality(Yielded(r)) = Len(got)                            \* never an entry twice
     /\ Yielded(r) \subseteq PairsOf(list)
     /\ \A i \in 1..Len(word) + 1 : r.hints[i] = n - (IF i - 1 < n THEN i - 1 ELSE n)   \* exact size hints
     /\ (Len(word) >= n => Yielded(r) = PairsOf(list))                \* none skipped
     /\ \A i \in 1..Len(word) : i > n => r.yields[i] = NoItem         \* exhausted stays exhausted
     /\ r.count = r.hints[Len(word) + 1]
     \* a clone taken at step i yields exactly what the original has not yielded yet
     /\ \A i \in 1..Len(word) + 1 :
          {r.clones[i][j] : j \in 1..Len(r.clones[i])} = PairsOf(list) \ {r.yields[j] : j \in 1..(i - 1)}
AllNext(n) == [i \in 1..n |-> <<"n", -1>>]
\* with skips: nth(k) is k + 1 plain steps of which only the last one is reported; never an entry twice, hints exact,
\* an over-long skip exhausts the iterator
Expand(word) == \* the plain word a skip word abbreviates
  LET F[i \in 0..Len(word)] == IF i = 0 THEN <<>> ELSE F[i - 1] \o [j \in 1..(Skip(word[i]) + 1) |-> <<Dir(word[i]), -1>>] IN F[Len(word)]
SkipOK(list, kind, word) ==
  LET r == Run(list, kind, "kv", word)
      x == Run(list, kind, "kv", Expand(word))
      got == SelectSeq(r.yields, LAMBDA y : y # NoItem)
  IN /\ Cardinality(Yielded(r)) = Len(got) /\ Yielded(r) \subseteq PairsOf(list)
     /\ r.count = x.count /\ r.rest = x.rest /\ r.last = x.last             \* same remainder as the expanded plain word
     /\ \A i \in 1..Len(word) : r.yields[i] # NoItem => r.yields[i] \in Yielded(x)
     /\ r.count + Cardinality(Yielded(x)) = Len(list)
Init == done = FALSE
Next == /\ ~done /\ done' = TRUE
        /\ \A list \in Lists : \A kind \in {"mru", "lru"} : \A word \in Words(Len(list) + 2) :
             /\ OK(list, kind, word)
             \* projections
             /\ \A i \in 1..Len(word) : LET y == Run(list, kind, "kv", word).yields[i] IN
                  y # NoItem => /\ Run(list, kind, "k", word).yields[i] = <<y[1], 0>>
                                /\ Run(list, kind, "v", word).yields[i] = <<0, y[2]>>
        /\ \A list \in Lists : \A kind \in {"mru", "lru"} : \A word \in SkipWords(3, 2) : SkipOK(list, kind, word)
        \* lru order is the exact reverse of mru order
        /\ \A list \in Lists :
             LET n == Len(list) IN
             Run(list, "lru", "kv", AllNext(n)).yields = Rev(Run(list, "mru", "kv", AllNext(n)).yields)
Spec == Init /\ [][Next]_done
=============================================================================
