---------------------------- MODULE LRUList ----------------------------
(***************************************************************************)
(* Pure operators on a recency list.  A list is a sequence of entries      *)
(* [k |-> key, v |-> value]; index 1 is the MOST recently used entry and   *)
(* index Len(l) the LEAST recently used one (the eviction victim).         *)
(* Every cache in caches-rs is a small tuple of such lists; the hash       *)
(* index, sentinels and raw pointers of the implementation do not appear   *)
(* here (they appear in RawLRUHeap.tla and in the audit observation).      *)
(***************************************************************************)
EXTENDS Naturals, Sequences, FiniteSets

Ent(k, v) == [k |-> k, v |-> v]
KeysOf(l) == {l[i].k : i \in 1..Len(l)}
Has(l, k) == \E i \in 1..Len(l) : l[i].k = k
Find(l, k) == CHOOSE i \in 1..Len(l) : l[i].k = k
ValOf(l, k) == l[Find(l, k)].v
Without(l, k) == SelectSeq(l, LAMBDA e : e.k # k)
PushMRU(l, e) == <<e>> \o l
Touch(l, k) == <<l[Find(l, k)]>> \o Without(l, k)
SetVal(l, k, v) == [i \in 1..Len(l) |-> IF l[i].k = k THEN Ent(k, v) ELSE l[i]]
MRUOf(l) == l[1]
LRUOf(l) == l[Len(l)]
DropLRU(l) == SubSeq(l, 1, Len(l) - 1)
Rev(l) == [i \in 1..Len(l) |-> l[Len(l) + 1 - i]]
NoDupKeys(l) == Cardinality(KeysOf(l)) = Len(l)
\* entries as a set of <<k, v>> pairs
PairsOf(l) == {<<l[i].k, l[i].v>> : i \in 1..Len(l)}

\* Hand an entry to a list of capacity c (RawLRU::put_nonnull / put_or_evict_nonnull):
\* when the list is full its LRU entry is pushed out.  out is <<>> or <<evicted entry>>.
PushCap(l, e, c) == IF Len(l) >= c /\ Len(l) > 0
                    THEN [l |-> PushMRU(DropLRU(l), e), out |-> <<LRUOf(l)>>]
                    ELSE [l |-> PushMRU(l, e), out |-> <<>>]

\* ---- encodings of return values (shared with the harness' JSON) ----
RNone == [t |-> "None"]
RSome(v) == [t |-> "Some", val |-> v]
RSomeKV(e) == [t |-> "SomeKV", k |-> e.k, val |-> e.v]
RBool(b) == [t |-> "Bool", b |-> b]
RInt(n) == [t |-> "Int", n |-> n]
RUnit == [t |-> "Unit"]
RPair(a, b) == [t |-> "Pair", a |-> a, b |-> b]
RPut == [t |-> "Put"]
RUpdate(old) == [t |-> "Update", old |-> old]
REvicted(e) == [t |-> "Evicted", ek |-> e.k, ev |-> e.v]
REvictedAndUpdate(e, old) == [t |-> "EvictedAndUpdate", ek |-> e.k, ev |-> e.v, old |-> old]
IsPutResult(r) == r.t \in {"Put", "Update", "Evicted", "EvictedAndUpdate"}
=============================================================================
