---------------------------- MODULE MCWTinyHeap ----------------------------
(* Model-checking instance of WTinyHeap.tla plus the refinement into WTinyLFU.tla: in a panic-free history the three  *)
(* lists read off the heap are the lists WTinyLFU.tla computes (same keys, same order, same value objects), with the  *)
(* admission verdict the machine drew passed to the abstract step.                                                     *)
EXTENDS WTinyHeap
VARIABLES abs, rets      \* rets: what the last completed operation handed back: <<value objects, key ids>> at pointer level and in WTinyLFU.tla
WT == INSTANCE WTinyLFU WITH W <- WS, A <- CA, B <- CB
HeapList(l) == [i \in 1..Len(Fwd(l)) |-> [k |-> KeyValOf(heap, Fwd(l)[i]), v |-> heap[Fwd(l)[i]].val]]
AbsStep == CASE regs.op = "put" -> WT!WPut(abs, regs.k, 2 * nputs, IF regs.adm = 2 THEN "reject" ELSE "admit")
             [] regs.op = "get" -> WT!WGet(abs, regs.k, 0)
             [] regs.op = "remove" -> WT!WRemove(abs, regs.k)
RetVals(r) == CASE r.t = "Update" -> {r.old} [] r.t = "Evicted" -> {r.ev} [] r.t = "EvictedAndUpdate" -> {r.ev, r.old}
                [] r.t = "Some" -> {r.val} [] OTHER -> {}
RetKeys(r) == IF r.t \in {"Evicted", "EvictedAndUpdate"} THEN {r.ek} ELSE {}
NoRets == <<{}, {}, {}, {}>>
MCInit == Init /\ abs = WT!WInit /\ rets = NoRets
Track ==
  abs' = IF panics' > 0 THEN abs
         ELSE IF prog # <<>> /\ prog' = <<>> THEN
              AbsStep.st
         ELSE abs
TrackRet ==
  rets' = IF panics' > 0 \/ ~(prog # <<>> /\ prog' = <<>>) THEN NoRets
          ELSE IF regs.op = "get" THEN NoRets            \* a get hands back a reference, no object changes hands
          ELSE <<{t \in regs.ret : tok[t].k = 0}, {tok[t].k : t \in {x \in regs.ret : tok[x].k # 0}},
                 RetVals(AbsStep.ret), RetKeys(AbsStep.ret)>>
MCNext == Next /\ Track /\ TrackRet
MCSpec == MCInit /\ [][MCNext]_<<vars, abs, rets>>
Refines == (Idle /\ panics = 0) =>
              /\ HeapList("W") = abs.win /\ HeapList("PB") = abs.main.prob /\ HeapList("PT") = abs.main.prot
\* C12 at pointer level: the objects handed back by put / remove are the ones WTinyLFU.tla's PutResult / Option carries
RetRefines == rets[1] = rets[3] /\ rets[2] = rets[4]
=============================================================================
