---------------------------- MODULE MCWTinyHeap ----------------------------
(* Model-checking instance of WTinyHeap.tla plus the refinement into WTinyLFU.tla: in a panic-free history the three  *)
(* lists read off the heap are the lists WTinyLFU.tla computes (same keys, same order, same value objects), with the  *)
(* admission verdict the machine drew passed to the abstract step.                                                     *)
EXTENDS WTinyHeap
VARIABLES abs
WT == INSTANCE WTinyLFU WITH W <- WS, A <- CA, B <- CB
HeapList(l) == [i \in 1..Len(Fwd(l)) |-> [k |-> KeyValOf(heap, Fwd(l)[i]), v |-> heap[Fwd(l)[i]].val]]
MCInit == Init /\ abs = WT!WInit
Track ==
  abs' = IF panics' > 0 THEN abs
         ELSE IF prog # <<>> /\ prog' = <<>> THEN
              (CASE regs.op = "put" -> WT!WPut(abs, regs.k, 2 * nputs, IF regs.adm = 2 THEN "reject" ELSE "admit").st
                 [] regs.op = "get" -> WT!WGet(abs, regs.k, 0).st
                 [] regs.op = "remove" -> WT!WRemove(abs, regs.k).st)
         ELSE abs
MCNext == Next /\ Track
MCSpec == MCInit /\ [][MCNext]_<<vars, abs>>
Refines == (Idle /\ panics = 0) =>
              /\ HeapList("W") = abs.win /\ HeapList("PB") = abs.main.prob /\ HeapList("PT") = abs.main.prot
=============================================================================
