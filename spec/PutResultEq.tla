---------------------------- MODULE PutResultEq ----------------------------
(***************************************************************************)
(* C12, last sentence: PutResult values are structural.  Two results       *)
(* compare equal exactly when they are the same variant with equal         *)
(* payloads, and Clone / Copy preserve that.                                *)
(* The 15 values over the payload domain {0, 1}:                           *)
(*   Put | Update(v) | Evicted{k,v} | EvictedAndUpdate{(k,v),u}            *)
(* TLC enumerates all 15 x 15 pairs (MCPutResultEq) for the harness, which *)
(* builds them as real PutResult<u64,u64> values and logs `a == b`,        *)
(* `a.clone() == a`, `copy == a`, `a != b`; PutResultTrace checks each      *)
(* answer against structural equality of the records.                      *)
(***************************************************************************)
EXTENDS Naturals, Sequences, LRUList
D == {0, 1}
Values == {RPut} \cup {RUpdate(v) : v \in D} \cup {REvicted(Ent(k, v)) : k \in D, v \in D}
          \cup {REvictedAndUpdate(Ent(k, v), u) : k \in D, v \in D, u \in D}
StructEq(a, b) == a = b
=============================================================================
