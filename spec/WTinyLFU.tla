----------------------------- MODULE WTinyLFU -----------------------------
(***************************************************************************)
(* WTinyLFUCache: window LRU (capacity W) in front of a segmented main     *)
(* cache (probationary capacity A, protected capacity B), with a TinyLFU   *)
(* admission filter.  State: [win, main |-> [prob, prot]].                 *)
(* Follows src/lfu/wtinylfu.rs::put:                                       *)
(*   1. key in window  -> leaves the window and is put_protected; when     *)
(*      protected is full its LRU entry is first demoted INTO THE WINDOW;  *)
(*   2. key in main    -> SegmentedCache::put;                             *)
(*   3. new key        -> window; the entry the window pushes out is the   *)
(*      candidate: admitted freely while main has room, otherwise compared *)
(*      with main's victim (probationary LRU): rejected (handed back as    *)
(*      Evicted) iff its estimate is STRICTLY lower.                       *)
(* The admission verdict adm \in {"admit","reject"} is an INPUT of the     *)
(* step: in generation it comes from the abstract estimator (TinyLFU.tla), *)
(* in trace validation from the real estimator's observed estimates.       *)
(***************************************************************************)
EXTENDS Segmented, TinyLFU
CONSTANTS W

WInit == [win |-> <<>>, main |-> SInit]
W2(st, ret) == [st |-> st, ret |-> ret]

\* does a put of a NEW key k consult the estimator, and for which pair?
WNeedsVerdict(s, k) ==
  /\ ~Has(s.win, k) /\ ~SHas(s.main, k)
  /\ Len(s.win) >= W /\ Len(s.win) > 0
  /\ SLen(s.main) >= A + B
  /\ Len(s.main.prob) > 0
WCandidate(s) == LRUOf(s.win).k
WVictim(s) == LRUOf(s.main.prob).k

WPut(s, k, v, adm) ==
  IF Has(s.win, k) THEN
    LET old == ValOf(s.win, k)
        w1 == Without(s.win, k)
        m  == s.main
    IN IF Len(m.prot) >= B
       THEN LET d  == LRUOf(m.prot)
                m1 == [m EXCEPT !.prot = DropLRU(m.prot)]
            IN W2([win |-> PushCap(w1, d, W).l, main |-> SPutProtected(m1, k, v).st], RUpdate(old))
       ELSE W2([win |-> w1, main |-> SPutProtected(m, k, v).st], RUpdate(old))
  ELSE IF SHas(s.main, k) THEN
    LET x == SPut(s.main, k, v) IN W2([s EXCEPT !.main = x.st], x.ret)
  ELSE
    LET pw == PushCap(s.win, Ent(k, v), W) IN
    IF pw.out = <<>> THEN W2([s EXCEPT !.win = pw.l], RPut)
    ELSE LET c == pw.out[1] IN
      IF SLen(s.main) < A + B \/ Len(s.main.prob) = 0 \/ adm = "admit"
      THEN LET x == SPut(s.main, c.k, c.v) IN W2([win |-> pw.l, main |-> x.st], x.ret)
      ELSE W2([s EXCEPT !.win = pw.l], REvicted(c))

WGet(s, k, w) ==
  IF Has(s.win, k)
  THEN W2([s EXCEPT !.win = SWriteIf(Touch(s.win, k), k, w)], RSome(ValOf(s.win, k)))
  ELSE LET x == SGet(s.main, k, w) IN W2([s EXCEPT !.main = x.st], x.ret)
WPeek(s, k, w) ==
  IF Has(s.win, k)
  THEN W2([s EXCEPT !.win = SWriteIf(s.win, k, w)], RSome(ValOf(s.win, k)))
  ELSE LET x == SPeek(s.main, k, w) IN W2([s EXCEPT !.main = x.st], x.ret)
WRemove(s, k) ==
  IF Has(s.win, k) THEN W2([s EXCEPT !.win = Without(s.win, k)], RSome(ValOf(s.win, k)))
  ELSE LET x == SRemove(s.main, k) IN W2([s EXCEPT !.main = x.st], x.ret)
WHas(s, k) == Has(s.win, k) \/ SHas(s.main, k)
WLen(s) == Len(s.win) + SLen(s.main)

WApply(op, s, adm) ==
  CASE op.op = "put"      -> WPut(s, op.k, op.v, adm)
    [] op.op = "get"      -> WGet(s, op.k, 0)
    [] op.op = "get_mut"  -> WGet(s, op.k, op.w)
    [] op.op = "peek"     -> WPeek(s, op.k, 0)
    [] op.op = "peek_mut" -> WPeek(s, op.k, op.w)
    [] op.op = "contains" -> W2(s, RBool(WHas(s, op.k)))
    [] op.op = "remove"   -> WRemove(s, op.k)
    [] op.op = "purge"    -> W2(WInit, RUnit)
    [] op.op = "len"      -> W2(s, RInt(WLen(s)))
    [] op.op = "cap"      -> W2(s, RInt(W + A + B))
    [] op.op = "is_empty" -> W2(s, RBool(WLen(s) = 0))
    [] op.op = "ro"       -> W2(s, RUnit)

\* effect of an operation on the abstract estimator
WEstApply(op, e, samples) ==
  CASE op.op \in {"get", "get_mut"} -> TAccess(e, op.k, samples)
    [] op.op = "purge"              -> TClear(e)
    [] OTHER                        -> e

\* verdict the abstract estimator gives (strictly lower => reject)
WAdmAbs(s, e) == IF Len(s.win) = 0 \/ Len(s.main.prob) = 0 THEN "admit"
                 ELSE IF Exact(e, WCandidate(s)) < Exact(e, WVictim(s)) THEN "reject" ELSE "admit"

WOps(Keys, Vals) ==
  LET Wr == Vals \cup {0} IN
       [op : {"put"}, k : Keys, v : Vals]
  \cup [op : {"get", "remove"}, k : Keys]
  \cup [op : {"get_mut", "peek_mut"}, k : Keys, w : Wr]
  \cup [op : {"purge", "ro"}]

WWellFormed(s) ==
  /\ Len(s.win) <= W /\ SWellFormed(s.main)
  /\ NoDupKeys(s.win \o s.main.prob \o s.main.prot)
\* normalised-view ingredients (see Props.tla)
WParts(s) == <<s.win, s.main.prob, s.main.prot>>
WRes == {1, 2, 3}
WBounds == <<W, A, B>>
WReadOnly == {"peek", "contains", "len", "cap", "is_empty", "ro"}
=============================================================================
