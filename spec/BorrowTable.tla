---------------------------- MODULE BorrowTable ----------------------------
(* EXAMPLE of the table module that bin/c19.py GENERATES from the library sources at check    *)
(* time (into its work directory, next to copies of Borrow.tla and MCBorrow.tla).  This copy  *)
(* only documents the shape and lets MCBorrow.tla be parsed stand-alone; the check never      *)
(* reads it.                                                                                  *)
MethodTable == {
  [id |-> "RawLRU.peek", type |-> "RawLRU", name |-> "peek", recv |-> "shared", ret |-> "shared"],
  [id |-> "RawLRU.peek_lru_mut", type |-> "RawLRU", name |-> "peek_lru_mut", recv |-> "mut", ret |-> "mut"],
  [id |-> "RawLRU.iter", type |-> "RawLRU", name |-> "iter", recv |-> "shared", ret |-> "iter_shared"]
}
TypeTable == {
  [name |-> "RawLRU", class |-> "cache"],
  [name |-> "MRUIter", class |-> "iter_shared"],
  [name |-> "MRUIterMut", class |-> "iter_mut"]
}
=============================================================================
