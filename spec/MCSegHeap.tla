----------------------------- MODULE MCSegHeap -----------------------------
(* Model-checking instance of SegHeap.tla plus the refinement into Segmented.tla: in a panic-free history the two *)
(* lists read off the heap are the lists Segmented.tla computes (same keys, same order, same value objects).      *)
EXTENDS SegHeap
VARIABLES abs, cur
SG == INSTANCE Segmented WITH A <- CA, B <- CB
HeapList(l) == [i \in 1..Len(Fwd(l)) |-> [k |-> KeyValOf(heap, Fwd(l)[i]), v |-> heap[Fwd(l)[i]].val]]
MCInit == Init /\ abs = SG!SInit /\ cur = [op |-> "none"]
Track ==
  /\ cur' = IF pc.op = "idle" /\ pc'.op = "put" THEN [op |-> "put", k |-> pc'.k, v |-> pc'.tv]
            ELSE IF pc.op = "idle" /\ pc'.op = "get" THEN [op |-> "get", k |-> pc'.k]
            ELSE IF pc'.op = "idle" THEN [op |-> "none"] ELSE cur
  /\ abs' = IF panics' > 0 THEN abs
            ELSE IF pc.op # "idle" /\ pc'.op = "idle" /\ cur.op = "put" THEN SG!SPut(abs, cur.k, cur.v).st
            ELSE IF pc.op # "idle" /\ pc'.op = "idle" /\ cur.op = "get" THEN SG!SGet(abs, cur.k, 0).st
            ELSE IF pc.op = "idle" /\ pc'.op = "idle" /\ index' # index
                 THEN SG!SRemove(abs, (CHOOSE e \in index \ index' : TRUE).k).st           \* a remove that found the key
            ELSE IF pc.op = "idle" /\ pc'.op = "idle" /\ heap' # heap
                 THEN SG!SGet(abs, KeyValOf(heap', heap'[HeadOf("R")].next), 0).st         \* a get that hit protected
            ELSE abs
MCNext == Next /\ Track
MCSpec == MCInit /\ [][MCNext]_<<vars, abs, cur>>
Refines == (pc.op = "idle" /\ panics = 0) => HeapList("P") = abs.prob /\ HeapList("R") = abs.prot
=============================================================================
