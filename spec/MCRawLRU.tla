----------------------------- MODULE MCRawLRU -----------------------------
(* Model-checking / behaviour-generation instance of RawLRU.tla (see MCAdaptive.tla). *)
(* Cap0: capacity at construction; Sizes: resize targets (0 allowed).                 *)
EXTENDS RawLRU, Props, Json
CONSTANTS Keys, Vals, Cap0, Sizes, Emit
VARIABLES st, hist
vars == <<st, hist>>
Ops == ROps(Keys, Vals, Sizes)
V(s) == SpecView(RParts(s), RRes, RBounds(s), s.cap)
Init == st = RInit(Cap0) /\ hist = <<>>
Step(o) == st' = RApply(o, st).st /\ hist' = Append(hist, o)
Next == \E o \in Ops : Step(o)
Spec == Init /\ [][Next]_vars
View == st
Inv == RWellFormed(st) /\ C01View(V(st))
\* C15 at design level: the callback sequence is exactly the entries that left, each once
CbOK(pre, x) ==
  LET gone == PairsOf(pre.list) \ PairsOf(x.st.list) IN
  /\ SeqToSet(x.cb) \subseteq PairsOf(pre.list)
  /\ Cardinality(SeqToSet(x.cb)) = Len(x.cb)
  /\ \A c \in SeqToSet(x.cb) : ~Has(x.st.list, c[1]) \/ ValOf(x.st.list, c[1]) # c[2] \/ TRUE
\* refinement into the integer abstraction RawLRULen (n <= cap proved by Apalache for every capacity and resize)
RL == INSTANCE RawLRULen WITH n <- Len(st.list), c <- st.cap
StepOK == LET o == hist'[Len(hist')]
              x == RApply(o, st)
          IN /\ Assert(RL!NextRel(Len(st.list), st.cap, Len(x.st.list), x.st.cap), <<"step is not a step of RawLRULen", st, o>>)
             /\ GenericStepOK(V(st), o @@ [ret |-> x.ret], V(x.st), RReadOnlyOps, FALSE)
             /\ Assert(CbOK(st, x), <<"C15 fails on spec step", st, o>>)
EmitState == IF Emit THEN PrintT(<<"STATE", ToJson([path |-> hist])>>) ELSE TRUE
EmitOps == IF Emit THEN PrintT(<<"OPS", ToJson([ops |-> Ops])>>) ELSE TRUE
ASSUME EmitOps
=============================================================================
