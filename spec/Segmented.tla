---------------------------- MODULE Segmented ----------------------------
(***************************************************************************)
(* SegmentedCache (SLRU): probationary list (capacity A) and protected     *)
(* list (capacity B).  State: [prob, prot].                                *)
(* Structure follows src/lru/segmented.rs: a hit in probationary is moved  *)
(* to the MRU end of protected (move_to_protected); when that overflows    *)
(* protected, protected's LRU entry is DEMOTED to the MRU end of           *)
(* probationary (never evicted); only probationary's LRU is evicted for a  *)
(* new key.                                                                *)
(***************************************************************************)
EXTENDS LRUList
CONSTANTS A, B

SInit == [prob |-> <<>>, prot |-> <<>>]
S2(st, ret) == [st |-> st, ret |-> ret]
SWriteIf(l, k, w) == IF w = 0 THEN l ELSE SetVal(l, k, w)

\* entry e (already taken out of prob) enters protected; overflow demotes protected's LRU
Promote(s, e) ==
  LET pp == PushCap(s.prot, e, B) IN
  IF pp.out = <<>> THEN [s EXCEPT !.prot = pp.l]
  ELSE [s EXCEPT !.prot = pp.l, !.prob = PushMRU(s.prob, pp.out[1])]

SPut(s, k, v) ==
  IF Has(s.prot, k) THEN
    S2([s EXCEPT !.prot = PushMRU(Without(s.prot, k), Ent(k, v))], RUpdate(ValOf(s.prot, k)))
  ELSE IF Has(s.prob, k) THEN
    S2(Promote([s EXCEPT !.prob = Without(s.prob, k)], Ent(k, v)), RUpdate(ValOf(s.prob, k)))
  ELSE LET pp == PushCap(s.prob, Ent(k, v), A) IN
    S2([s EXCEPT !.prob = pp.l], IF pp.out = <<>> THEN RPut ELSE REvicted(pp.out[1]))

\* put_protected: the key ends in protected and nowhere else (C07).  A key that is
\* already resident (either segment) is updated/promoted like put; a new key goes
\* straight to protected, whose LRU is evicted (reported) when it is full (pinned, DESIGN 3.3 v).
SPutProtected(s, k, v) ==
  IF Has(s.prot, k) \/ Has(s.prob, k) THEN SPut(s, k, v)
  ELSE LET pp == PushCap(s.prot, Ent(k, v), B) IN
    S2([s EXCEPT !.prot = pp.l], IF pp.out = <<>> THEN RPut ELSE REvicted(pp.out[1]))

SGet(s, k, w) ==
  IF Has(s.prot, k) THEN
    S2([s EXCEPT !.prot = SWriteIf(Touch(s.prot, k), k, w)], RSome(ValOf(s.prot, k)))
  ELSE IF Has(s.prob, k) THEN
    LET old == ValOf(s.prob, k)
        nv  == IF w = 0 THEN old ELSE w
    IN S2(Promote([s EXCEPT !.prob = Without(s.prob, k)], Ent(k, nv)), RSome(old))
  ELSE S2(s, RNone)

SPeek(s, k, w) ==
  IF Has(s.prot, k) THEN S2([s EXCEPT !.prot = SWriteIf(s.prot, k, w)], RSome(ValOf(s.prot, k)))
  ELSE IF Has(s.prob, k) THEN S2([s EXCEPT !.prob = SWriteIf(s.prob, k, w)], RSome(ValOf(s.prob, k)))
  ELSE S2(s, RNone)

SRemove(s, k) ==
  IF Has(s.prob, k) THEN S2([s EXCEPT !.prob = Without(s.prob, k)], RSome(ValOf(s.prob, k)))
  ELSE IF Has(s.prot, k) THEN S2([s EXCEPT !.prot = Without(s.prot, k)], RSome(ValOf(s.prot, k)))
  ELSE S2(s, RNone)

\* per-segment accessors: seg \in {"prob", "prot"}, end \in {"lru", "mru"}
SSeg(s, seg) == IF seg = "prob" THEN s.prob ELSE s.prot
SSetSeg(s, seg, l) == IF seg = "prob" THEN [s EXCEPT !.prob = l] ELSE [s EXCEPT !.prot = l]
SPeekEnd(s, seg, end, w) ==
  LET l == SSeg(s, seg) IN
  IF Len(l) = 0 THEN S2(s, RNone)
  ELSE LET e == IF end = "lru" THEN LRUOf(l) ELSE MRUOf(l) IN
       S2(SSetSeg(s, seg, SWriteIf(l, e.k, w)), RSomeKV(e))
SRemoveLruFrom(s, seg) ==
  LET l == SSeg(s, seg) IN
  IF Len(l) = 0 THEN S2(s, RNone) ELSE S2(SSetSeg(s, seg, DropLRU(l)), RSomeKV(LRUOf(l)))

SLen(s) == Len(s.prob) + Len(s.prot)
SHas(s, k) == Has(s.prob, k) \/ Has(s.prot, k)

SApply(op, s) ==
  CASE op.op = "put"           -> SPut(s, op.k, op.v)
    [] op.op = "put_protected" -> SPutProtected(s, op.k, op.v)
    [] op.op = "get"           -> SGet(s, op.k, 0)
    [] op.op = "get_mut"       -> SGet(s, op.k, op.w)
    [] op.op = "peek"          -> SPeek(s, op.k, 0)
    [] op.op = "peek_mut"      -> SPeek(s, op.k, op.w)
    [] op.op = "contains"      -> S2(s, RBool(SHas(s, op.k)))
    [] op.op = "remove"        -> SRemove(s, op.k)
    [] op.op = "purge"         -> S2(SInit, RUnit)
    [] op.op = "remove_lru_from" -> SRemoveLruFrom(s, op.seg)
    [] op.op = "peek_end"      -> SPeekEnd(s, op.seg, op.end, 0)
    [] op.op = "peek_end_mut"  -> SPeekEnd(s, op.seg, op.end, op.w)
    [] op.op = "len"           -> S2(s, RInt(SLen(s)))
    [] op.op = "cap"           -> S2(s, RInt(A + B))
    [] op.op = "is_empty"      -> S2(s, RBool(SLen(s) = 0))
    [] op.op = "seg_len"       -> S2(s, RInt(Len(SSeg(s, op.seg))))
    [] op.op = "seg_cap"       -> S2(s, RInt(IF op.seg = "prob" THEN A ELSE B))
    [] op.op = "ro"            -> S2(s, RUnit)

SOps(Keys, Vals) ==
  LET W == Vals \cup {0} IN
       [op : {"put", "put_protected"}, k : Keys, v : Vals]
  \cup [op : {"get", "remove"}, k : Keys]
  \cup [op : {"get_mut", "peek_mut"}, k : Keys, w : W]
  \cup [op : {"remove_lru_from"}, seg : {"prob", "prot"}]
  \cup [op : {"peek_end_mut"}, seg : {"prob", "prot"}, end : {"lru", "mru"}, w : W]
  \cup [op : {"purge", "ro"}]

SWellFormed(s) ==
  /\ Len(s.prob) <= A /\ Len(s.prot) <= B
  /\ NoDupKeys(s.prob \o s.prot)
\* normalised-view ingredients (see Props.tla)
SParts(s) == <<s.prob, s.prot>>
SRes == {1, 2}
SBounds == <<A, B>>
SReadOnly == {"peek", "contains", "len", "cap", "is_empty", "peek_end", "seg_len", "seg_cap", "ro"}
=============================================================================
