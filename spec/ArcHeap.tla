------------------------------ MODULE ArcHeap ------------------------------
(***************************************************************************)
(* Pointer-level model of AdaptiveCache (src/lru/adaptive.rs) on top of    *)
(* the node primitives of src/lru/raw.rs: four intrusive lists over one    *)
(* node heap (T1 recent, T2 frequent, B1 / B2 their ghost lists) and the   *)
(* adaptation target tgt.  Same INSTRUCTION MACHINE as TwoQHeap.tla (see     *)
(* there for the instruction set and the treatment of panics); additional  *)
(* instructions: setp (the two tgt updates), replace (AdaptiveCache::replace *)
(* deciding on the CURRENT list lengths), trim (ghost trimming with the    *)
(* lengths captured before replace and the current tgt), remove_lru and      *)
(* rawput (RawLRU::put on T1, reusing the evicted node when T1 is full).   *)
(* Checked by TLC (MCArcHeap): Safe, WF, Reachable, Accounted, 0 <= tgt <=   *)
(* Size, and Refines into Adaptive.tla (lists and tgt).  Bound to the real   *)
(* AdaptiveCache by ArcHeapTrace.tla.                                       *)
(***************************************************************************)
EXTENDS Naturals, Sequences, FiniteSets, TLC
CONSTANTS Keys, Size, MaxPuts, MaxPanics

Lists == {"T1", "T2", "B1", "B2"}
HeadOf(l) == CASE l = "T1" -> 0 [] l = "T2" -> 2 [] l = "B1" -> 4 [] l = "B2" -> 6
TailOf(l) == HeadOf(l) + 1
CapOf(l) == Size
NodeIds == 8..(7 + MaxPuts)
Ptrs == 0..(7 + MaxPuts)
Toks == 1..(2 * MaxPuts)

VARIABLES heap,     \* [Ptrs -> node]
          index,    \* set of [l, k, n]: the three hash indexes
          tok,      \* [Toks -> [k, st]]; st \in {"unborn", "live", "dropped", "returned"}
          tgt,        \* the adaptation target
          nputs, prog, regs, bad, panics
vars == <<heap, index, tok, tgt, nputs, prog, regs, bad, panics>>

Node(st, key, val, pv, n) == [st |-> st, key |-> key, val |-> val, prev |-> pv, next |-> n]
NoRegs == [op |-> "idle", k |-> 0, tk |-> 0, tv |-> 0, found |-> 0, ent |-> 0, vic |-> 0, rst |-> 0, new |-> 0, old |-> 0,
           rl |-> 0, fl |-> 0, rel |-> 0, fel |-> 0, owned |-> {}, ret |-> {}]
I(i, l, r, m) == [i |-> i, l |-> l, r |-> r, m |-> m]       \* instruction, list, register name, mode / label
Init ==
  /\ heap = [i \in Ptrs |-> IF i \in {0, 2, 4, 6} THEN Node("sentinel", 0, 0, i, i + 1)
                            ELSE IF i \in {1, 3, 5, 7} THEN Node("sentinel", 0, 0, i - 1, i)
                            ELSE Node("unalloc", 0, 0, 0, 0)]
  /\ index = {} /\ tok = [t \in Toks |-> [k |-> 0, st |-> "unborn"]]
  /\ tgt = 0 /\ nputs = 0 /\ prog = <<>> /\ regs = NoRegs /\ bad = {} /\ panics = 0
Idle == prog = <<>>

(* ------------------------------ helpers ------------------------------- *)
Usable(h, n) == h[n].st \in {"live", "sentinel"}
DerefBad(h, n) == IF Usable(h, n) THEN {} ELSE {"use-after-free"}
KeyReadBad(h, n) == DerefBad(h, n) \cup (IF h[n].st = "sentinel" \/ h[n].key = 0 THEN {"uninit-read"} ELSE {})
KeyValOf(h, n) == IF h[n].key = 0 THEN 0 ELSE tok[h[n].key].k
IdxOf(l) == {e \in index : e.l = l}
LenOf(l) == Cardinality(IdxOf(l))
Matches(h, l, k) == {e \in IdxOf(l) : e.k = k /\ KeyValOf(h, e.n) = k}
LookupBad(h, l, k) == UNION {KeyReadBad(h, e.n) : e \in {x \in IdxOf(l) : x.k = k}}
Detach(h, n) == LET pv == h[n].prev  x == h[n].next IN [h EXCEPT ![pv].next = x, ![x].prev = pv]
DetachBad(h, n) == DerefBad(h, n) \cup DerefBad(h, h[n].prev) \cup DerefBad(h, h[n].next)
Attach(h, l, n) ==
  LET hd == HeadOf(l)
      first == h[hd].next
      h1 == [h EXCEPT ![n].next = first, ![n].prev = hd, ![hd].next = n]
  IN [h1 EXCEPT ![first].prev = n]
AttachBad(h, l, n) == DerefBad(h, n) \cup DerefBad(h, h[HeadOf(l)].next)
DropToks(tk, S) == [t \in Toks |-> IF t \in S THEN [tk[t] EXCEPT !.st = "dropped"] ELSE tk[t]]
DropBad(tk, S) == IF \E t \in S : tk[t].st # "live" THEN {"double-drop"} ELSE {}
ReturnToks(tk, S) == [t \in Toks |-> IF t \in S THEN [tk[t] EXCEPT !.st = "returned"] ELSE tk[t]]
CanPanic == panics < MaxPanics
R(name) == CASE name = "found" -> regs.found [] name = "ent" -> regs.ent [] name = "vic" -> regs.vic [] name = "rst" -> regs.rst
             [] name = "new" -> regs.new [] name = "old" -> regs.old
SetR(rg, name, v) == CASE name = "found" -> [rg EXCEPT !.found = v] [] name = "ent" -> [rg EXCEPT !.ent = v]
                       [] name = "vic" -> [rg EXCEPT !.vic = v] [] name = "rst" -> [rg EXCEPT !.rst = v]
                       [] name = "new" -> [rg EXCEPT !.new = v] [] name = "old" -> [rg EXCEPT !.old = v]
\* unwinding: the owned locals are dropped; raw node pointers are simply forgotten
Unwind ==
  /\ tok' = DropToks(tok, regs.owned) /\ bad' = bad \cup DropBad(tok, regs.owned)
  /\ prog' = <<>> /\ regs' = NoRegs /\ panics' = panics + 1
  /\ UNCHANGED <<heap, index, tgt, nputs>>
\* a panic that is not user code (an unwrap() on None): unwinds the same way.  In a history without an earlier
\* user-code panic it is a defect of its own (C05: no operation ever panics) and is recorded in `bad`
InternalPanic ==
  /\ tok' = DropToks(tok, regs.owned)
  /\ bad' = bad \cup DropBad(tok, regs.owned) \cup (IF panics = 0 THEN {"unwrap-on-none"} ELSE {})
  /\ prog' = <<>> /\ regs' = NoRegs /\ panics' = panics + 1
  /\ UNCHANGED <<heap, index, tgt, nputs>>
Rest == Tail(prog)
Cont(rg, seq) == prog' = seq \o Rest /\ regs' = rg

(* --------------------- control flow of the operations ------------------ *)
ToT2 == <<I("detach", "", "ent", 0), I("swapval", "", "ent", 0)>>
RemoveFrom(l, next) == \* RawLRU::remove on list l found the key: unlink, free (key dropped, value handed back)
  <<I("detach", "", "ent", 0), I("free", "", "ent", 3), I("finish", "", "", 0)>>
Branch(label, rg) ==
  CASE \* ---- put(k, v)
       label = "put0" ->           \* after recent.remove_and_return_ent(&k)
         IF rg.ent # 0 THEN ToT2 \o <<I("put_nonnull", "T2", "ent", 0), I("finish", "", "", 1)>>
         ELSE <<I("lookup", "T2", "", 0), I("br", "", "", "put1")>>
    [] label = "put1" ->           \* after frequent.map.get_mut(&k)
         IF rg.found # 0 THEN <<I("swapval", "", "found", 0), I("detach", "", "found", 0), I("attach", "T2", "found", 0), I("finish", "", "", 1)>>
         ELSE <<I("lens", "", "", 0), I("lookup", "B1", "", 0), I("br", "", "", "put2")>>
    [] label = "put2" ->           \* after recent_evict.contains(&k)
         IF rg.found # 0
         THEN <<I("setp", "", "", 1), I("mapremove_k", "B1", "", 0), I("unwrap", "", "ent", 0)>> \o ToT2
              \o <<I("replace_if_full", "", "", 0), I("put_nonnull", "T2", "ent", 0), I("finish", "", "", 1)>>
         ELSE <<I("lookup", "B2", "", 0), I("br", "", "", "put3")>>
    [] label = "put3" ->           \* after frequent_evict.map.contains_key(&k)
         IF rg.found # 0
         THEN <<I("setp", "", "", 2), I("mapremove_k", "B2", "", 0), I("unwrap", "", "ent", 0)>> \o ToT2
              \o (IF rg.rl + rg.fl >= Size THEN <<I("replace", "", "", 1)>> ELSE <<>>)
              \o <<I("put_nonnull", "T2", "ent", 0), I("finish", "", "", 1)>>
         ELSE (IF rg.rl + rg.fl >= Size THEN <<I("replace", "", "", 0)>> ELSE <<>>)
              \o <<I("trim", "B1", "", 0), I("trim", "B2", "", 0), I("lookup", "T1", "", 0), I("br", "", "", "rp0")>>
       \* ---- RawLRU::put(k, v) on T1
    [] label = "rp0" ->
         IF rg.found # 0 THEN <<I("swapval", "", "found", 0), I("detach", "", "found", 0), I("attach", "T1", "found", 0), I("finish", "", "", 1)>>
         ELSE <<I("rawput_new", "T1", "", 0)>>
       \* ---- replace(): after frequent.remove_lru_in()
    [] label = "rep1" ->
         IF rg.vic # 0 THEN <<I("put_nonnull", "B2", "vic", 0)>>
         ELSE <<I("remove_lru_in", "T1", "vic", 0), I("br", "", "", "rep2")>>
    [] label = "rep2" -> IF rg.vic # 0 THEN <<I("put_nonnull", "B1", "vic", 0)>> ELSE <<>>
       \* ---- RawLRU::remove_lru(): the pair handed back is dropped by the caller
    [] label = "rl1" -> IF rg.vic # 0 THEN <<I("free", "", "vic", 0)>> ELSE <<>>
       \* ---- get(k): recent.peek_ -> move_to_frequent, else frequent.get_
    [] label = "get0" ->
         IF rg.found # 0 THEN <<I("mapremove_k", "T1", "", 0), I("br", "", "", "get1")>>
         ELSE <<I("lookup", "T2", "", 0), I("br", "", "", "get2")>>
    [] label = "get1" ->
         IF rg.ent # 0 THEN <<I("detach", "", "ent", 0), I("put_nonnull", "T2", "ent", 0), I("finish", "", "", 0)>>
         ELSE <<I("lookup", "T2", "", 0), I("br", "", "", "get2")>>
    [] label = "get2" ->
         IF rg.found # 0 THEN <<I("detach", "", "found", 0), I("attach", "T2", "found", 0), I("finish", "", "", 0)>>
         ELSE <<I("finish", "", "", 0)>>
       \* ---- remove(k): recent, frequent, recent_evict, frequent_evict
    [] label = "rm0" -> IF rg.ent # 0 THEN RemoveFrom("T1", 0) ELSE <<I("mapremove_k", "T2", "", 0), I("br", "", "", "rm1")>>
    [] label = "rm1" -> IF rg.ent # 0 THEN RemoveFrom("T2", 0) ELSE <<I("mapremove_k", "B1", "", 0), I("br", "", "", "rm2")>>
    [] label = "rm2" -> IF rg.ent # 0 THEN RemoveFrom("B1", 0) ELSE <<I("mapremove_k", "B2", "", 0), I("br", "", "", "rm3")>>
    [] label = "rm3" -> IF rg.ent # 0 THEN RemoveFrom("B2", 0) ELSE <<I("finish", "", "", 0)>>

(* --------------------------- starting an operation --------------------- *)
StartPutT(k, tk, tv) ==
  /\ Idle /\ nputs < MaxPuts
  /\ tok' = [tok EXCEPT ![tk] = [k |-> k, st |-> "live"], ![tv] = [k |-> 0, st |-> "live"]]
  /\ regs' = [NoRegs EXCEPT !.op = "put", !.k = k, !.tk = tk, !.tv = tv, !.owned = {tk, tv}]
  /\ prog' = <<I("mapremove_k", "T1", "", 0), I("br", "", "", "put0")>>
  /\ nputs' = nputs + 1 /\ UNCHANGED <<heap, index, tgt, bad, panics>>
StartPut(k) == StartPutT(k, 2 * nputs + 1, 2 * nputs + 2)
StartGet(k) ==
  /\ Idle
  /\ regs' = [NoRegs EXCEPT !.op = "get", !.k = k]
  /\ prog' = <<I("lookup", "T1", "", 0), I("br", "", "", "get0")>>
  /\ UNCHANGED <<heap, index, tok, tgt, nputs, bad, panics>>
StartRemove(k) ==
  /\ Idle
  /\ regs' = [NoRegs EXCEPT !.op = "remove", !.k = k]
  /\ prog' = <<I("mapremove_k", "T1", "", 0), I("br", "", "", "rm0")>>
  /\ UNCHANGED <<heap, index, tok, tgt, nputs, bad, panics>>

(* ------------------------------ the machine ---------------------------- *)
Exec ==
  /\ ~Idle
  /\ LET ins == Head(prog) IN
     CASE ins.i = "lookup" ->
            \/ CanPanic /\ Unwind
            \/ /\ bad' = bad \cup LookupBad(heap, ins.l, regs.k)
               /\ LET m == Matches(heap, ins.l, regs.k) IN
                  Cont([regs EXCEPT !.found = IF m = {} THEN 0 ELSE (CHOOSE e \in m : TRUE).n], <<>>)
               /\ UNCHANGED <<heap, index, tok, nputs, panics, tgt>>
       [] ins.i = "mapremove_k" ->
            \/ CanPanic /\ Unwind
            \/ /\ bad' = bad \cup LookupBad(heap, ins.l, regs.k)
               /\ LET m == Matches(heap, ins.l, regs.k) IN
                  IF m = {} THEN Cont([regs EXCEPT !.ent = 0], <<>>) /\ UNCHANGED index
                  ELSE LET e == CHOOSE x \in m : TRUE IN index' = index \ {e} /\ Cont([regs EXCEPT !.ent = e.n], <<>>)
               /\ UNCHANGED <<heap, tok, nputs, panics, tgt>>
       [] ins.i = "mapremove_tail" ->      \* m = 1: the caller has checked that the chain is not empty; m = 0: unchecked
            LET node == heap[TailOf(ins.l)].prev
                ok == KeyValOf(heap, node)
                m == Matches(heap, ins.l, ok)
            IN \/ CanPanic /\ Unwind
               \/ /\ m = {} /\ ins.m # 1                 \* put_nonnull / replace_or_create_node: map.remove(..).unwrap() on None
                  /\ tok' = DropToks(tok, regs.owned)
                  /\ bad' = bad \cup KeyReadBad(heap, node) \cup LookupBad(heap, ins.l, ok) \cup DropBad(tok, regs.owned)
                                \cup (IF panics = 0 THEN {"unwrap-on-none"} ELSE {})
                  /\ prog' = <<>> /\ regs' = NoRegs /\ panics' = panics + 1 /\ UNCHANGED <<heap, index, nputs, tgt>>
               \/ /\ (m # {} \/ ins.m = 1)
                  /\ bad' = bad \cup KeyReadBad(heap, node) \cup LookupBad(heap, ins.l, ok)
                  /\ IF m = {}
                     THEN IF ins.m = 1 THEN Cont(SetR(regs, ins.r, 0), <<>>) /\ UNCHANGED <<heap, index, tok, nputs, panics, tgt>>   \* remove_lru_in: None
                          ELSE FALSE                                                                                          \* put_nonnull: .unwrap()
                     ELSE LET e == CHOOSE x \in m : TRUE IN
                          /\ index' = index \ {e} /\ Cont(SetR(regs, ins.r, e.n), <<>>)
                          /\ UNCHANGED <<heap, tok, nputs, panics, tgt>>
       [] ins.i = "mapinsert" ->
            \/ CanPanic /\ Unwind
            \/ /\ index' = index \cup {[l |-> ins.l, k |-> KeyValOf(heap, R(ins.r)), n |-> R(ins.r)]}
               /\ bad' = bad \cup KeyReadBad(heap, R(ins.r))
               /\ Cont(regs, <<>>) /\ UNCHANGED <<heap, tok, nputs, panics, tgt>>
       [] ins.i = "detach" ->
            /\ heap' = Detach(heap, R(ins.r)) /\ bad' = bad \cup DetachBad(heap, R(ins.r))
            /\ Cont(regs, <<>>) /\ UNCHANGED <<index, tok, nputs, panics, tgt>>
       [] ins.i = "attach" ->
            /\ heap' = Attach(heap, ins.l, R(ins.r)) /\ bad' = bad \cup AttachBad(heap, ins.l, R(ins.r))
            /\ Cont(regs, <<>>) /\ UNCHANGED <<index, tok, nputs, panics, tgt>>
       [] ins.i = "alloc" ->               \* Box::new(EntryNode::new(k, v)): the arguments move into the node
            LET n == CHOOSE i \in NodeIds : heap[i].st = "unalloc" /\ \A j \in NodeIds : j < i => heap[j].st # "unalloc" IN
            /\ heap' = [heap EXCEPT ![n] = Node("live", regs.tk, regs.tv, 0, 0)]
            /\ Cont([regs EXCEPT !.new = n, !.owned = @ \ {regs.tk, regs.tv}], <<>>)
            /\ UNCHANGED <<index, tok, nputs, bad, panics, tgt>>
       [] ins.i = "swapval" ->             \* mem::swap(&mut v, node.val)
            LET n == R(ins.r)  old == heap[n].val IN
            /\ heap' = [heap EXCEPT ![n].val = regs.tv] /\ bad' = bad \cup DerefBad(heap, n)
            /\ Cont([regs EXCEPT !.tv = old, !.owned = (@ \ {regs.tv}) \cup ({old} \ {0})], <<>>)
            /\ UNCHANGED <<index, tok, nputs, panics, tgt>>
       [] ins.i = "free" ->                \* *Box::from_raw(node): m = 0 pair dropped at once; 1 pair handed back; 3 key dropped, value handed back
            LET n == R(ins.r)  pair == {heap[n].key, heap[n].val} \ {0} IN
            /\ heap' = [heap EXCEPT ![n].st = "freed"]
            /\ bad' = bad \cup (IF heap[n].st # "live" THEN {"double-free"} ELSE {})
                          \cup (IF ins.m = 0 THEN DropBad(tok, pair) ELSE IF ins.m = 3 THEN DropBad(tok, {heap[n].key} \ {0}) ELSE {})
            /\ tok' = IF ins.m = 0 THEN DropToks(tok, pair) ELSE IF ins.m = 3 THEN DropToks(tok, {heap[n].key} \ {0}) ELSE tok
            /\ Cont(IF ins.m = 0 THEN regs
                    ELSE IF ins.m = 3 THEN [regs EXCEPT !.owned = @ \cup ({heap[n].val} \ {0}), !.ret = @ \cup ({heap[n].val} \ {0})]
                    ELSE [regs EXCEPT !.owned = @ \cup pair, !.ret = @ \cup pair], <<>>)
            /\ UNCHANGED <<index, nputs, panics, tgt>>
       [] ins.i = "lens" ->
            /\ Cont([regs EXCEPT !.rl = LenOf("T1"), !.fl = LenOf("T2"), !.rel = LenOf("B1"), !.fel = LenOf("B2")], <<>>)
            /\ UNCHANGED <<heap, index, tok, nputs, bad, panics, tgt>>
       [] ins.i = "unwrap" ->
            IF R(ins.r) = 0 THEN InternalPanic ELSE Cont(regs, <<>>) /\ UNCHANGED <<heap, index, tok, nputs, bad, panics, tgt>>
       [] ins.i = "mov" ->                 \* regs[ins.r] := regs[ins.l]  (l holds the source register name)
            /\ Cont(SetR(regs, ins.r, R(ins.l)), <<>>) /\ UNCHANGED <<heap, index, tok, nputs, bad, panics, tgt>>
       [] ins.i = "clr" ->
            /\ Cont(SetR(regs, ins.r, 0), <<>>) /\ UNCHANGED <<heap, index, tok, nputs, bad, panics, tgt>>
       [] ins.i = "put_nonnull" ->         \* m = 0: put_nonnull, PutResult dropped; 1: put_nonnull, PutResult handed back; 2: put_or_evict_nonnull -> rst
            /\ IF LenOf(ins.l) >= CapOf(ins.l)
               THEN Cont(regs, <<I("mapremove_tail", ins.l, "old", 0), I("detach", "", "old", 0), I("attach", ins.l, ins.r, 0),
                                  I("mapinsert", ins.l, ins.r, 0)>>
                                \o (IF ins.m = 2 THEN <<I("mov", "old", "rst", 0)>> ELSE <<I("free", "", "old", ins.m)>>))
               ELSE Cont(regs, <<I("attach", ins.l, ins.r, 0), I("mapinsert", ins.l, ins.r, 0)>>
                                \o (IF ins.m = 2 THEN <<I("clr", "", "rst", 0)>> ELSE <<>>))
            /\ UNCHANGED <<heap, index, tok, nputs, bad, panics, tgt>>
       [] ins.i = "remove_lru_in" ->
            /\ IF heap[TailOf(ins.l)].prev = HeadOf(ins.l)
               THEN Cont(SetR(regs, ins.r, 0), <<>>)
               ELSE Cont(regs, <<I("mapremove_tail", ins.l, ins.r, 1), I("detach_if", "", ins.r, 0)>>)
            /\ UNCHANGED <<heap, index, tok, nputs, bad, panics, tgt>>
       [] ins.i = "detach_if" ->
            IF R(ins.r) = 0 THEN Cont(regs, <<>>) /\ UNCHANGED <<heap, index, tok, nputs, bad, panics, tgt>>
            ELSE /\ heap' = Detach(heap, R(ins.r)) /\ bad' = bad \cup DetachBad(heap, R(ins.r))
                 /\ Cont(regs, <<>>) /\ UNCHANGED <<index, tok, nputs, panics, tgt>>
       [] ins.i = "setp" ->                \* m = 1: hit in B1 (tgt grows), m = 2: hit in B2 (tgt shrinks); lengths as captured by `lens`
            LET d1 == IF regs.fel > regs.rel THEN regs.fel \div regs.rel ELSE 1
                d2 == IF regs.rel > regs.fel THEN regs.rel \div regs.fel ELSE 1
            IN /\ tgt' = IF ins.m = 1 THEN (IF tgt + d1 >= Size THEN Size ELSE tgt + d1) ELSE (IF d2 >= tgt THEN 0 ELSE tgt - d2)
               /\ Cont(regs, <<>>) /\ UNCHANGED <<heap, index, tok, nputs, bad, panics>>
       [] ins.i = "replace_if_full" ->     \* B1 hit: the CURRENT lengths decide (the hit key has already left B1)
            /\ Cont(regs, IF LenOf("T1") + LenOf("T2") >= Size THEN <<I("replace", "", "", ins.m)>> ELSE <<>>)
            /\ UNCHANGED <<heap, index, tok, tgt, nputs, bad, panics>>
       [] ins.i = "replace" ->             \* AdaptiveCache::replace(m = 1: the key was found in B2)
            LET n1 == LenOf("T1") IN
            /\ Cont(regs, IF n1 > 0 /\ (n1 > tgt \/ (n1 = tgt /\ ins.m = 1))
                           THEN <<I("remove_lru_in", "T1", "vic", 0), I("br", "", "", "rep2")>>
                           ELSE <<I("remove_lru_in", "T2", "vic", 0), I("br", "", "", "rep1")>>)
            /\ UNCHANGED <<heap, index, tok, tgt, nputs, bad, panics>>
       [] ins.i = "trim" ->                \* ghost trimming: captured length against the current tgt
            /\ Cont(regs, IF (ins.l = "B1" /\ regs.rel > Size - tgt) \/ (ins.l = "B2" /\ regs.fel > tgt)
                           THEN <<I("remove_lru_in", ins.l, "vic", 0), I("br", "", "", "rl1")>> ELSE <<>>)
            /\ UNCHANGED <<heap, index, tok, tgt, nputs, bad, panics>>
       [] ins.i = "rawput_new" ->          \* RawLRU::put of a key that is not in the list: reuse the LRU node when full
            /\ Cont(regs, IF LenOf(ins.l) = CapOf(ins.l)
                           THEN <<I("mapremove_tail", ins.l, "old", 0), I("swapkv", "", "old", 0), I("detach", "", "old", 0),
                                  I("attach", ins.l, "old", 0), I("mapinsert", ins.l, "old", 0), I("finish", "", "", 0)>>
                           ELSE <<I("alloc", "", "", 0), I("attach", ins.l, "new", 0), I("mapinsert", ins.l, "new", 0), I("finish", "", "", 0)>>)
            /\ UNCHANGED <<heap, index, tok, tgt, nputs, bad, panics>>
       [] ins.i = "swapkv" ->              \* mem::replace of the node's key and value by the arguments: the old pair is handed back
            LET n == R(ins.r)  pair == {heap[n].key, heap[n].val} \ {0} IN
            /\ heap' = [heap EXCEPT ![n].key = regs.tk, ![n].val = regs.tv] /\ bad' = bad \cup DerefBad(heap, n)
            /\ Cont([regs EXCEPT !.owned = (@ \ {regs.tk, regs.tv}) \cup pair, !.ret = @ \cup pair], <<>>)
            /\ UNCHANGED <<index, tok, tgt, nputs, panics>>
       [] ins.i = "br" ->
            /\ Cont(regs, Branch(ins.m, regs)) /\ UNCHANGED <<heap, index, tok, nputs, bad, panics, tgt>>
       [] ins.i = "finish" ->              \* m = 1: the (possibly swapped) value local is handed back as well
            LET ret == regs.ret \cup (IF ins.m = 1 THEN {regs.tv} \ {0} ELSE {})
                drop == regs.owned \ ret
            IN /\ tok' = ReturnToks(DropToks(tok, drop), ret) /\ bad' = bad \cup DropBad(tok, drop)
               /\ prog' = <<>> /\ regs' = NoRegs
               /\ UNCHANGED <<heap, index, nputs, panics, tgt>>

Next == (\E k \in Keys : StartPut(k) \/ StartGet(k) \/ StartRemove(k)) \/ Exec
Spec == Init /\ [][Next]_vars

(* ------------------------------ properties ---------------------------- *)
Safe == bad = {}
RECURSIVE Walk(_, _, _, _, _)
Walk(h, l, n, fwd, fuel) ==
  IF fuel = 0 THEN <<>> ELSE
  LET x == IF fwd THEN h[n].next ELSE h[n].prev IN
  IF (fwd /\ x = TailOf(l)) \/ (~fwd /\ x = HeadOf(l)) THEN <<>> ELSE <<x>> \o Walk(h, l, x, fwd, fuel - 1)
Fwd(l) == Walk(heap, l, HeadOf(l), TRUE, MaxPuts + 1)
Bwd(l) == Walk(heap, l, TailOf(l), FALSE, MaxPuts + 1)
Rev(s) == [i \in 1..Len(s) |-> s[Len(s) + 1 - i]]
SeqSet(s) == {s[i] : i \in 1..Len(s)}
WFList(l) ==
  /\ Bwd(l) = Rev(Fwd(l)) /\ Cardinality(SeqSet(Fwd(l))) = Len(Fwd(l))
  /\ SeqSet(Fwd(l)) = {e.n : e \in IdxOf(l)} /\ Len(Fwd(l)) = LenOf(l) /\ LenOf(l) <= CapOf(l)
  /\ \A e \in IdxOf(l) : heap[e.n].st = "live" /\ KeyValOf(heap, e.n) = e.k
\* C03 (structure) and C01 (bounds, a key in at most one list) for panic-free histories
WF == (Idle /\ panics = 0) =>
        /\ \A l \in Lists : WFList(l)
        /\ \A l1, l2 \in Lists : l1 # l2 => /\ SeqSet(Fwd(l1)) \cap SeqSet(Fwd(l2)) = {}
                                            /\ {e.k : e \in IdxOf(l1)} \cap {e.k : e \in IdxOf(l2)} = {}
        /\ LenOf("T1") + LenOf("T2") <= Size /\ tgt <= Size
\* after panics: whatever is reachable through a chain or an index is alive, and objects in reachable nodes are alive
Reachable == Idle =>
  \A l \in Lists :
     /\ \A i \in 1..Len(Fwd(l)) : heap[Fwd(l)[i]].st = "live" /\ heap[Fwd(l)[i]].key # 0
                                    /\ tok[heap[Fwd(l)[i]].key].st = "live" /\ tok[heap[Fwd(l)[i]].val].st = "live"
     /\ \A e \in IdxOf(l) : heap[e.n].st = "live"
\* C04 for panic-free histories: every minted object is in exactly one live node, or returned, or dropped
Accounted == (Idle /\ panics = 0) =>
  \A t \in Toks : tok[t].st = "live" <=> (\E n \in NodeIds : heap[n].st = "live" /\ (heap[n].key = t \/ heap[n].val = t))
=============================================================================
