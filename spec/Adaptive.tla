----------------------------- MODULE Adaptive -----------------------------
(***************************************************************************)
(* AdaptiveCache (ARC).  State: [t1, t2, b1, b2, p]:                       *)
(*   t1 recent, t2 frequent, b1 recent-ghosts, b2 frequent-ghosts, p the   *)
(*   adaptation target (0 <= p <= Size).                                   *)
(* Follows src/lru/adaptive.rs; deviations from textbook ARC that the code *)
(* makes and the specification keeps: ghost entries keep their values;     *)
(* remove() also removes ghosts; the two ghost lists are trimmed using     *)
(* their lengths measured BEFORE replace(); each ghost list has capacity   *)
(* Size and silently discards its LRU entry when a victim is pushed onto a *)
(* full one.  On a ghost hit the hit key leaves its ghost list before      *)
(* replace() runs (required: otherwise replace may push the hit key out).  *)
(***************************************************************************)
EXTENDS LRUList
CONSTANTS Size

AInit == [t1 |-> <<>>, t2 |-> <<>>, b1 |-> <<>>, b2 |-> <<>>, p |-> 0]
A2(st, ret) == [st |-> st, ret |-> ret]
AWriteIf(l, k, w) == IF w = 0 THEN l ELSE SetVal(l, k, w)
AMin(a, b) == IF a < b THEN a ELSE b

\* replace(): choose the list to evict from; C09 requires the fallback to the
\* non-empty list so that a full cache always makes room.
Replace(s, b2hit) ==
  LET n1 == Len(s.t1) IN
  IF n1 > 0 /\ (n1 > s.p \/ (n1 = s.p /\ b2hit))
  THEN [s EXCEPT !.t1 = DropLRU(s.t1), !.b1 = PushCap(s.b1, LRUOf(s.t1), Size).l]
  ELSE IF Len(s.t2) > 0
  THEN [s EXCEPT !.t2 = DropLRU(s.t2), !.b2 = PushCap(s.b2, LRUOf(s.t2), Size).l]
  ELSE IF n1 > 0
  THEN [s EXCEPT !.t1 = DropLRU(s.t1), !.b1 = PushCap(s.b1, LRUOf(s.t1), Size).l]
  ELSE s

APut(s, k, v) ==
  IF Has(s.t1, k) THEN
    A2([s EXCEPT !.t1 = Without(s.t1, k), !.t2 = PushMRU(s.t2, Ent(k, v))], RUpdate(ValOf(s.t1, k)))
  ELSE IF Has(s.t2, k) THEN
    A2([s EXCEPT !.t2 = PushMRU(Without(s.t2, k), Ent(k, v))], RUpdate(ValOf(s.t2, k)))
  ELSE IF Has(s.b1, k) THEN
    LET d  == IF Len(s.b2) > Len(s.b1) THEN Len(s.b2) \div Len(s.b1) ELSE 1
        s1 == [s EXCEPT !.p = AMin(Size, s.p + d), !.b1 = Without(s.b1, k)]
        s2 == IF Len(s.t1) + Len(s.t2) >= Size THEN Replace(s1, FALSE) ELSE s1
    IN A2([s2 EXCEPT !.t2 = PushMRU(s2.t2, Ent(k, v))], RUpdate(ValOf(s.b1, k)))
  ELSE IF Has(s.b2, k) THEN
    LET d  == IF Len(s.b1) > Len(s.b2) THEN Len(s.b1) \div Len(s.b2) ELSE 1
        s1 == [s EXCEPT !.p = IF d >= s.p THEN 0 ELSE s.p - d, !.b2 = Without(s.b2, k)]
        s2 == IF Len(s.t1) + Len(s.t2) >= Size THEN Replace(s1, TRUE) ELSE s1
    IN A2([s2 EXCEPT !.t2 = PushMRU(s2.t2, Ent(k, v))], RUpdate(ValOf(s.b2, k)))
  ELSE
    LET s1 == IF Len(s.t1) + Len(s.t2) >= Size THEN Replace(s, FALSE) ELSE s
        s2 == IF Len(s.b1) > Size - s.p /\ Len(s1.b1) > 0 THEN [s1 EXCEPT !.b1 = DropLRU(s1.b1)] ELSE s1
        s3 == IF Len(s.b2) > s.p /\ Len(s2.b2) > 0 THEN [s2 EXCEPT !.b2 = DropLRU(s2.b2)] ELSE s2
    IN A2([s3 EXCEPT !.t1 = PushMRU(s3.t1, Ent(k, v))], RPut)

\* The other admissible order on a ghost hit (the statement is silent on it, DESIGN 3.3 iii): room is made FIRST, with
\* the hit key still in its ghost list - a full ghost list then silently discards its LRU entry (possibly the hit key
\* itself, whose value the caller already holds) - and the hit key is taken out afterwards.  Resident lists, p and the
\* return value are the same as in APut; only which ghost is silently discarded may differ.
APutAlt(s, k, v) ==
  IF Has(s.b1, k) /\ ~Has(s.t1, k) /\ ~Has(s.t2, k) THEN
    LET d  == IF Len(s.b2) > Len(s.b1) THEN Len(s.b2) \div Len(s.b1) ELSE 1
        s1 == [s EXCEPT !.p = AMin(Size, s.p + d)]
        s2 == IF Len(s.t1) + Len(s.t2) >= Size THEN Replace(s1, FALSE) ELSE s1
    IN A2([s2 EXCEPT !.b1 = Without(s2.b1, k), !.t2 = PushMRU(s2.t2, Ent(k, v))], RUpdate(ValOf(s.b1, k)))
  ELSE IF Has(s.b2, k) /\ ~Has(s.t1, k) /\ ~Has(s.t2, k) THEN
    LET d  == IF Len(s.b1) > Len(s.b2) THEN Len(s.b1) \div Len(s.b2) ELSE 1
        s1 == [s EXCEPT !.p = IF d >= s.p THEN 0 ELSE s.p - d]
        s2 == IF Len(s.t1) + Len(s.t2) >= Size THEN Replace(s1, TRUE) ELSE s1
    IN A2([s2 EXCEPT !.b2 = Without(s2.b2, k), !.t2 = PushMRU(s2.t2, Ent(k, v))], RUpdate(ValOf(s.b2, k)))
  ELSE APut(s, k, v)

AGet(s, k, w) ==
  IF Has(s.t1, k) THEN
    LET old == ValOf(s.t1, k)
        nv  == IF w = 0 THEN old ELSE w
    IN A2([s EXCEPT !.t1 = Without(s.t1, k), !.t2 = PushMRU(s.t2, Ent(k, nv))], RSome(old))
  ELSE IF Has(s.t2, k) THEN
    A2([s EXCEPT !.t2 = AWriteIf(Touch(s.t2, k), k, w)], RSome(ValOf(s.t2, k)))
  ELSE A2(s, RNone)

APeek(s, k, w) ==
  IF Has(s.t1, k) THEN A2([s EXCEPT !.t1 = AWriteIf(s.t1, k, w)], RSome(ValOf(s.t1, k)))
  ELSE IF Has(s.t2, k) THEN A2([s EXCEPT !.t2 = AWriteIf(s.t2, k, w)], RSome(ValOf(s.t2, k)))
  ELSE A2(s, RNone)

ARemove(s, k) ==
  IF Has(s.t1, k) THEN A2([s EXCEPT !.t1 = Without(s.t1, k)], RSome(ValOf(s.t1, k)))
  ELSE IF Has(s.t2, k) THEN A2([s EXCEPT !.t2 = Without(s.t2, k)], RSome(ValOf(s.t2, k)))
  ELSE IF Has(s.b1, k) THEN A2([s EXCEPT !.b1 = Without(s.b1, k)], RSome(ValOf(s.b1, k)))
  ELSE IF Has(s.b2, k) THEN A2([s EXCEPT !.b2 = Without(s.b2, k)], RSome(ValOf(s.b2, k)))
  ELSE A2(s, RNone)

AHas(s, k) == Has(s.t1, k) \/ Has(s.t2, k)
\* purge empties the four lists; the adaptation target survives (as in the code)
APurge(s) == A2([AInit EXCEPT !.p = s.p], RUnit)

AApply(op, s) ==
  CASE op.op = "put"      -> APut(s, op.k, op.v)
    [] op.op = "get"      -> AGet(s, op.k, 0)
    [] op.op = "get_mut"  -> AGet(s, op.k, op.w)
    [] op.op = "peek"     -> APeek(s, op.k, 0)
    [] op.op = "peek_mut" -> APeek(s, op.k, op.w)
    [] op.op = "contains" -> A2(s, RBool(AHas(s, op.k)))
    [] op.op = "remove"   -> ARemove(s, op.k)
    [] op.op = "purge"    -> APurge(s)
    [] op.op = "len"      -> A2(s, RInt(Len(s.t1) + Len(s.t2)))
    [] op.op = "cap"      -> A2(s, RInt(Size))
    [] op.op = "is_empty" -> A2(s, RBool(Len(s.t1) + Len(s.t2) + Len(s.b1) + Len(s.b2) = 0))
    [] op.op = "ro"       -> A2(s, RUnit)

AOps(Keys, Vals) ==
  LET W == Vals \cup {0} IN
       [op : {"put"}, k : Keys, v : Vals]
  \cup [op : {"get", "remove"}, k : Keys]
  \cup [op : {"get_mut", "peek_mut"}, k : Keys, w : W]
  \cup [op : {"purge", "ro"}]

AWellFormed(s) ==
  /\ Len(s.t1) + Len(s.t2) <= Size /\ Len(s.b1) <= Size /\ Len(s.b2) <= Size
  /\ s.p >= 0 /\ s.p <= Size
  /\ NoDupKeys(s.t1 \o s.t2 \o s.b1 \o s.b2)
\* normalised-view ingredients (see Props.tla)
AParts(s) == <<s.t1, s.t2, s.b1, s.b2>>
ARes == {1, 2}
ABounds == <<Size, Size, Size, Size>>
AReadOnly == {"peek", "contains", "len", "cap", "is_empty", "ro"}
=============================================================================
