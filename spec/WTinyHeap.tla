------------------------------ MODULE WTinyHeap ------------------------------
(***************************************************************************)
(* Pointer-level model of WTinyLFUCache (src/lfu/wtinylfu.rs): a window    *)
(* RawLRU ("W") in front of a SegmentedCache (probationary "PB", protected *)
(* "PT"), all three intrusive lists over one node heap, in the style of    *)
(* TwoQHeap.tla (an INSTRUCTION MACHINE: a running public operation is a   *)
(* sequence `prog` of micro-instructions over a small register file).      *)
(*                                                                         *)
(* Unlike 2Q / ARC, W-TinyLFU composes its two inner caches through their  *)
(* PUBLIC operations, so entries cross the window / main boundary BY VALUE:*)
(* a pair is moved out of a freed node into Rust locals (owned: dropped on *)
(* unwinding) and moved into a fresh or recycled node on the other side.   *)
(* Inside the main cache nodes migrate by raw pointer (owned by nobody     *)
(* while in flight).  The programs below are transcribed from              *)
(*   WTinyLFUCache::{put, get, get_mut, remove}                            *)
(*   RawLRU::{put (capturing_put + replace_or_create_node), remove,        *)
(*            remove_lru, get_, peek_, contains}                           *)
(*   SegmentedCache::{put, put_protected, get, remove, contains,           *)
(*            remove_lru_from_protected, peek_lru_from_probationary}       *)
(* Two pairs can be held in locals at once: the call's arguments ("arg":   *)
(* k, tk, tv) and a second pair ("cand": the entry taken out of protected, *)
(* or the candidate the window pushed out).                                *)
(* The TinyLFU estimator is not modelled: `userhash` is a call into user   *)
(* code (KeyHasher / Hash of a key) that may panic and changes nothing     *)
(* here, and the admission verdict is chosen nondeterministically (`adm`). *)
(*                                                                         *)
(* Checked by TLC (MCWTinyHeap): Safe, WF, Reachable, Accounted, Refines   *)
(* (into WTinyLFU.tla).  Bound to the real cache by WTinyHeapTrace.tla.    *)
(***************************************************************************)
EXTENDS Naturals, Sequences, FiniteSets, TLC
CONSTANTS Keys, WS, CA, CB, MaxPuts, MaxPanics

Lists == {"W", "PB", "PT"}
HeadOf(l) == CASE l = "W" -> 0 [] l = "PB" -> 2 [] l = "PT" -> 4
TailOf(l) == HeadOf(l) + 1
CapOf(l) == CASE l = "W" -> WS [] l = "PB" -> CA [] l = "PT" -> CB
NodeIds == 6..(5 + 2 * MaxPuts)      \* a put can allocate twice (the pair crossing window -> main, and the new key)
Ptrs == 0..(5 + 2 * MaxPuts)
Toks == 1..(2 * MaxPuts)

VARIABLES heap,     \* [Ptrs -> node]
          index,    \* set of [l, k, n]: the three hash indexes
          tok,      \* [Toks -> [k, st]]; st \in {"unborn", "live", "dropped", "returned"}
          nputs, prog, regs, bad, panics
vars == <<heap, index, tok, nputs, prog, regs, bad, panics>>

Node(st, key, val, pr, n) == [st |-> st, key |-> key, val |-> val, prev |-> pr, next |-> n]
\* k/tk/tv: the "arg" pair; ck/ctk/ctv: the "cand" pair; adm: admission verdict (1 admit, 2 reject, 0 not asked)
NoRegs == [op |-> "idle", k |-> 0, tk |-> 0, tv |-> 0, ck |-> 0, ctk |-> 0, ctv |-> 0, found |-> 0, ent |-> 0, vic |-> 0, rst |-> 0,
           new |-> 0, old |-> 0, adm |-> 0, res |-> "", owned |-> {}, ret |-> {}]
I(i, l, r, m) == [i |-> i, l |-> l, r |-> r, m |-> m]       \* instruction, list, register / pair name, mode / label
Init ==
  /\ heap = [i \in Ptrs |-> IF i \in {0, 2, 4} THEN Node("sentinel", 0, 0, i, i + 1)
                            ELSE IF i \in {1, 3, 5} THEN Node("sentinel", 0, 0, i - 1, i)
                            ELSE Node("unalloc", 0, 0, 0, 0)]
  /\ index = {} /\ tok = [t \in Toks |-> [k |-> 0, st |-> "unborn"]]
  /\ nputs = 0 /\ prog = <<>> /\ regs = NoRegs /\ bad = {} /\ panics = 0
Idle == prog = <<>>

(* ------------------------------ helpers ------------------------------- *)
Usable(h, n) == h[n].st \in {"live", "sentinel"}
DerefBad(h, n) == IF Usable(h, n) THEN {} ELSE {"use-after-free"}
KeyReadBad(h, n) == DerefBad(h, n) \cup (IF h[n].st = "sentinel" \/ h[n].key = 0 THEN {"uninit-read"} ELSE {})
KeyValOf(h, n) == IF h[n].key = 0 THEN 0 ELSE tok[h[n].key].k
IdxOf(l) == {e \in index : e.l = l}
LenOf(l) == Cardinality(IdxOf(l))
Matches(h, l, k) == {e \in IdxOf(l) : e.k = k /\ KeyValOf(h, e.n) = k}
LookupBad(h, l, k) == UNION {KeyReadBad(h, e.n) : e \in {x \in IdxOf(l) : x.k = k}}
Detach(h, n) == LET pr == h[n].prev  x == h[n].next IN [h EXCEPT ![pr].next = x, ![x].prev = pr]
DetachBad(h, n) == DerefBad(h, n) \cup DerefBad(h, h[n].prev) \cup DerefBad(h, h[n].next)
Attach(h, l, n) ==
  LET hd == HeadOf(l)
      first == h[hd].next
      h1 == [h EXCEPT ![n].next = first, ![n].prev = hd, ![hd].next = n]
  IN [h1 EXCEPT ![first].prev = n]
AttachBad(h, l, n) == DerefBad(h, n) \cup DerefBad(h, h[HeadOf(l)].next)
DropToks(tk, S) == [t \in Toks |-> IF t \in S THEN [tk[t] EXCEPT !.st = "dropped"] ELSE tk[t]]
DropBad(tk, S) == IF \E t \in S : tk[t].st # "live" THEN {"double-drop"} ELSE {}
ReturnToks(tk, S) == [t \in Toks |-> IF t \in S THEN [tk[t] EXCEPT !.st = "returned"] ELSE tk[t]]
CanPanic == panics < MaxPanics
R(name) == CASE name = "found" -> regs.found [] name = "ent" -> regs.ent [] name = "vic" -> regs.vic [] name = "rst" -> regs.rst
             [] name = "new" -> regs.new [] name = "old" -> regs.old
SetR(rg, name, v) == CASE name = "found" -> [rg EXCEPT !.found = v] [] name = "ent" -> [rg EXCEPT !.ent = v]
                       [] name = "vic" -> [rg EXCEPT !.vic = v] [] name = "rst" -> [rg EXCEPT !.rst = v]
                       [] name = "new" -> [rg EXCEPT !.new = v] [] name = "old" -> [rg EXCEPT !.old = v]
\* the two pairs held in locals
PK(rg, pn) == IF pn = "cand" THEN rg.ck ELSE rg.k
PTK(rg, pn) == IF pn = "cand" THEN rg.ctk ELSE rg.tk
PTV(rg, pn) == IF pn = "cand" THEN rg.ctv ELSE rg.tv
SetPTV(rg, pn, v) == IF pn = "cand" THEN [rg EXCEPT !.ctv = v] ELSE [rg EXCEPT !.tv = v]
\* unwinding: the owned locals are dropped; raw node pointers are simply forgotten
Unwind ==
  /\ tok' = DropToks(tok, regs.owned) /\ bad' = bad \cup DropBad(tok, regs.owned)
  /\ prog' = <<>> /\ regs' = NoRegs /\ panics' = panics + 1
  /\ UNCHANGED <<heap, index, nputs>>
\* a panic that is not user code (an unwrap() on None): unwinds the same way; in a history without an earlier user-code
\* panic it is a defect of its own (C05) and is recorded in `bad`
InternalPanic ==
  /\ tok' = DropToks(tok, regs.owned)
  /\ bad' = bad \cup DropBad(tok, regs.owned) \cup (IF panics = 0 THEN {"unwrap-on-none"} ELSE {})
  /\ prog' = <<>> /\ regs' = NoRegs /\ panics' = panics + 1
  /\ UNCHANGED <<heap, index, nputs>>
Rest == Tail(prog)
Cont(rg, seq) == prog' = seq \o Rest /\ regs' = rg

(* --------------------- control flow of the operations ------------------ *)
Fin == <<I("finish", "", "", 0)>>
\* RawLRU::put(pair) on list l; m: what happens to the PutResult (0 dropped, 1 handed back, 2 an Evicted pair becomes "cand")
RawPut(l, pn, m) == <<I("lookup", l, pn, 0), I("rawput1", l, pn, m)>>
\* SegmentedCache::put(pair); m: 0 PutResult dropped, 1 handed back
SegPut(pn, m) == <<I("lookup", "PT", pn, 0), I("segput1", "", pn, m)>>
\* SegmentedCache::move_to_protected after probationary.remove_and_return_ent found `ent`
Promote == <<I("put_nonnull", "PT", "ent", 2), I("demote_rst", "", "", 0)>>
Branch(label, rg) ==
  CASE \* ---- WTinyLFUCache::put(k, v)
       label = "put0" ->           \* after self.lru.remove(&k): map.remove
         IF rg.ent # 0
         THEN <<I("detach", "", "ent", 0), I("free", "", "ent", 3), I("br", "", "", "put_hit")>>
         ELSE <<I("lookup", "PT", "arg", 0), I("br", "", "", "put1")>>        \* slru.contains: protected || probationary
    [] label = "put_hit" ->        \* Some(old): make room in protected, then put_protected
         (IF LenOf("PT") >= CB
          THEN <<I("remove_lru_in", "PT", "vic", 0), I("unwrap", "", "vic", 0), I("freepair", "", "vic", 0)>> \o RawPut("W", "cand", 0)
          ELSE <<>>)
         \o <<I("lookup", "PB", "arg", 0), I("br", "", "", "pp0")>>
    [] label = "pp0" ->            \* put_protected: probationary.contains(&k)
         IF rg.found # 0 THEN SegPut("arg", 0) \o Fin ELSE RawPut("PT", "arg", 0) \o Fin
    [] label = "put1" ->
         IF rg.found # 0 THEN SegPut("arg", 1) \o Fin ELSE <<I("lookup", "PB", "arg", 0), I("br", "", "", "put2")>>
    [] label = "put2" ->
         IF rg.found # 0 THEN SegPut("arg", 1) \o Fin ELSE RawPut("W", "arg", 2) \o <<I("br", "", "", "put3")>>
    [] label = "put3" ->           \* the window's PutResult
         IF rg.res # "evicted" THEN Fin
         ELSE IF LenOf("PB") + LenOf("PT") < CA + CB THEN SegPut("cand", 1) \o Fin
         ELSE IF heap[TailOf("PB")].prev = HeadOf("PB") THEN SegPut("cand", 1) \o Fin          \* peek_lru_from_probationary: None
         ELSE <<I("verdict", "", "", 0), I("br", "", "", "put4")>>
    [] label = "put4" ->
         IF rg.adm = 2 THEN <<I("handback", "", "cand", 0)>> \o Fin ELSE SegPut("cand", 1) \o Fin
       \* ---- get(k): the access is recorded first, then window, then main
    [] label = "get0" ->
         IF rg.found # 0 THEN <<I("detach", "", "found", 0), I("attach", "W", "found", 0)>> \o Fin
         ELSE <<I("lookup", "PT", "arg", 0), I("br", "", "", "get1")>>
    [] label = "get1" ->           \* SegmentedCache::get: protected.get_
         IF rg.found # 0 THEN <<I("detach", "", "found", 0), I("attach", "PT", "found", 0)>> \o Fin
         ELSE <<I("lookup", "PB", "arg", 0), I("br", "", "", "get2")>>
    [] label = "get2" ->           \* probationary.peek_
         IF rg.found # 0 THEN <<I("mapremove_k", "PB", "arg", 0), I("br", "", "", "get3")>> ELSE Fin
    [] label = "get3" ->
         IF rg.ent # 0 THEN <<I("detach", "", "ent", 0)>> \o Promote \o Fin ELSE Fin
       \* ---- remove(k): window, then probationary, then protected
    [] label = "rm0" -> IF rg.ent # 0 THEN <<I("detach", "", "ent", 0), I("free", "", "ent", 3)>> \o Fin
                        ELSE <<I("mapremove_k", "PB", "arg", 0), I("br", "", "", "rm1")>>
    [] label = "rm1" -> IF rg.ent # 0 THEN <<I("detach", "", "ent", 0), I("free", "", "ent", 3)>> \o Fin
                        ELSE <<I("mapremove_k", "PT", "arg", 0), I("br", "", "", "rm2")>>
    [] label = "rm2" -> IF rg.ent # 0 THEN <<I("detach", "", "ent", 0), I("free", "", "ent", 3)>> \o Fin ELSE Fin

(* --------------------------- starting an operation --------------------- *)
StartPutT(k, tk, tv) ==
  /\ Idle /\ nputs < MaxPuts
  /\ tok' = [tok EXCEPT ![tk] = [k |-> k, st |-> "live"], ![tv] = [k |-> 0, st |-> "live"]]
  /\ regs' = [NoRegs EXCEPT !.op = "put", !.k = k, !.tk = tk, !.tv = tv, !.owned = {tk, tv}]
  /\ prog' = <<I("mapremove_k", "W", "arg", 0), I("br", "", "", "put0")>>
  /\ nputs' = nputs + 1 /\ UNCHANGED <<heap, index, bad, panics>>
StartPut(k) == StartPutT(k, 2 * nputs + 1, 2 * nputs + 2)
StartGet(k) ==
  /\ Idle
  /\ regs' = [NoRegs EXCEPT !.op = "get", !.k = k]
  /\ prog' = <<I("userhash", "", "", 0), I("lookup", "W", "arg", 0), I("br", "", "", "get0")>>
  /\ UNCHANGED <<heap, index, tok, nputs, bad, panics>>
StartRemove(k) ==
  /\ Idle
  /\ regs' = [NoRegs EXCEPT !.op = "remove", !.k = k]
  /\ prog' = <<I("mapremove_k", "W", "arg", 0), I("br", "", "", "rm0")>>
  /\ UNCHANGED <<heap, index, tok, nputs, bad, panics>>

(* ------------------------------ the machine ---------------------------- *)
Exec ==
  /\ ~Idle
  /\ LET ins == Head(prog) IN
     CASE ins.i = "lookup" ->              \* map.get / get_mut / contains_key with the key of pair ins.r
            \/ CanPanic /\ Unwind
            \/ /\ bad' = bad \cup LookupBad(heap, ins.l, PK(regs, ins.r))
               /\ LET m == Matches(heap, ins.l, PK(regs, ins.r)) IN
                  Cont([regs EXCEPT !.found = IF m = {} THEN 0 ELSE (CHOOSE e \in m : TRUE).n], <<>>)
               /\ UNCHANGED <<heap, index, tok, nputs, panics>>
       [] ins.i = "userhash" ->            \* TinyLFU::increment / lt: KeyHasher (Hash of the key); no effect on the lists
            \/ CanPanic /\ Unwind
            \/ Cont(regs, <<>>) /\ UNCHANGED <<heap, index, tok, nputs, bad, panics>>
       [] ins.i = "verdict" ->             \* tinylfu.lt(&candidate, victim): hashes both keys, either answer
            \/ CanPanic /\ Unwind
            \/ \E a \in {1, 2} : Cont([regs EXCEPT !.adm = a], <<>>) /\ UNCHANGED <<heap, index, tok, nputs, bad, panics>>
       [] ins.i = "mapremove_k" ->
            \/ CanPanic /\ Unwind
            \/ /\ bad' = bad \cup LookupBad(heap, ins.l, PK(regs, ins.r))
               /\ LET m == Matches(heap, ins.l, PK(regs, ins.r)) IN
                  IF m = {} THEN Cont([regs EXCEPT !.ent = 0], <<>>) /\ UNCHANGED index
                  ELSE LET e == CHOOSE x \in m : TRUE IN index' = index \ {e} /\ Cont([regs EXCEPT !.ent = e.n], <<>>)
               /\ UNCHANGED <<heap, tok, nputs, panics>>
       [] ins.i = "mapremove_tail" ->      \* m = 1: the caller has checked that the chain is not empty; m = 0: .unwrap()
            LET node == heap[TailOf(ins.l)].prev
                ok == KeyValOf(heap, node)
                m == Matches(heap, ins.l, ok)
            IN \/ CanPanic /\ Unwind
               \/ /\ m = {} /\ ins.m # 1                 \* put_nonnull / replace_or_create_node: map.remove(..).unwrap() on None
                  /\ tok' = DropToks(tok, regs.owned)
                  /\ bad' = bad \cup KeyReadBad(heap, node) \cup LookupBad(heap, ins.l, ok) \cup DropBad(tok, regs.owned)
                                \cup (IF panics = 0 THEN {"unwrap-on-none"} ELSE {})
                  /\ prog' = <<>> /\ regs' = NoRegs /\ panics' = panics + 1 /\ UNCHANGED <<heap, index, nputs>>
               \/ /\ (m # {} \/ ins.m = 1)
                  /\ bad' = bad \cup KeyReadBad(heap, node) \cup LookupBad(heap, ins.l, ok)
                  /\ IF m = {}
                     THEN IF ins.m = 1 THEN Cont(SetR(regs, ins.r, 0), <<>>) /\ UNCHANGED <<heap, index, tok, nputs, panics>>
                          ELSE FALSE        
                     ELSE LET e == CHOOSE x \in m : TRUE IN
                          /\ index' = index \ {e} /\ Cont(SetR(regs, ins.r, e.n), <<>>)
                          /\ UNCHANGED <<heap, tok, nputs, panics>>
       [] ins.i = "mapinsert" ->
            \/ CanPanic /\ Unwind
            \/ /\ index' = index \cup {[l |-> ins.l, k |-> KeyValOf(heap, R(ins.r)), n |-> R(ins.r)]}
               /\ bad' = bad \cup KeyReadBad(heap, R(ins.r))
               /\ Cont(regs, <<>>) /\ UNCHANGED <<heap, tok, nputs, panics>>
       [] ins.i = "detach" ->
            /\ heap' = Detach(heap, R(ins.r)) /\ bad' = bad \cup DetachBad(heap, R(ins.r))
            /\ Cont(regs, <<>>) /\ UNCHANGED <<index, tok, nputs, panics>>
       [] ins.i = "attach" ->
            /\ heap' = Attach(heap, ins.l, R(ins.r)) /\ bad' = bad \cup AttachBad(heap, ins.l, R(ins.r))
            /\ Cont(regs, <<>>) /\ UNCHANGED <<index, tok, nputs, panics>>
       [] ins.i = "alloc" ->               \* Box::new(EntryNode::new(k, v)): pair ins.r moves into the node
            LET n == CHOOSE i \in NodeIds : heap[i].st = "unalloc" /\ \A j \in NodeIds : j < i => heap[j].st # "unalloc"
                pair == {PTK(regs, ins.r), PTV(regs, ins.r)} IN
            /\ heap' = [heap EXCEPT ![n] = Node("live", PTK(regs, ins.r), PTV(regs, ins.r), 0, 0)]
            /\ Cont([regs EXCEPT !.new = n, !.owned = @ \ pair], <<>>)
            /\ UNCHANGED <<index, tok, nputs, bad, panics>>
       [] ins.i = "swapval" ->             \* mem::swap(&mut v, node.val) with the value of pair ins.l
            LET n == R(ins.r)  old == heap[n].val  mine == PTV(regs, ins.l) IN
            /\ heap' = [heap EXCEPT ![n].val = mine] /\ bad' = bad \cup DerefBad(heap, n)
            /\ Cont([SetPTV(regs, ins.l, old) EXCEPT !.owned = (@ \ {mine}) \cup ({old} \ {0})], <<>>)
            /\ UNCHANGED <<index, tok, nputs, panics>>
       [] ins.i = "swapkv" ->              \* replace_or_create_node: mem::replace of the node's key and value by pair ins.l;
                                           \* m = 0 old pair dropped with the PutResult, 1 handed back, 2 it becomes "cand"
            LET n == R(ins.r)  pair == {heap[n].key, heap[n].val} \ {0}
                mine == {PTK(regs, ins.l), PTV(regs, ins.l)}
                rg1 == [regs EXCEPT !.owned = (@ \ mine) \cup pair, !.res = "evicted"] IN
            /\ heap' = [heap EXCEPT ![n].key = PTK(regs, ins.l), ![n].val = PTV(regs, ins.l)] /\ bad' = bad \cup DerefBad(heap, n)
            /\ Cont(IF ins.m = 1 THEN [rg1 EXCEPT !.ret = @ \cup pair]
                    ELSE IF ins.m = 2 THEN [rg1 EXCEPT !.ck = KeyValOf(heap, n), !.ctk = heap[n].key, !.ctv = heap[n].val]
                    ELSE rg1, <<>>)
            /\ UNCHANGED <<index, tok, nputs, panics>>
       [] ins.i = "free" ->                \* *Box::from_raw(node): m = 0 pair dropped at once; 1 pair handed back; 3 key dropped, value handed back
            LET n == R(ins.r)  pair == {heap[n].key, heap[n].val} \ {0} IN
            /\ heap' = [heap EXCEPT ![n].st = "freed"]
            /\ bad' = bad \cup (IF heap[n].st # "live" THEN {"double-free"} ELSE {})
                          \cup (IF ins.m = 0 THEN DropBad(tok, pair) ELSE IF ins.m = 3 THEN DropBad(tok, {heap[n].key} \ {0}) ELSE {})
            /\ tok' = IF ins.m = 0 THEN DropToks(tok, pair) ELSE IF ins.m = 3 THEN DropToks(tok, {heap[n].key} \ {0}) ELSE tok
            /\ Cont(IF ins.m = 0 THEN regs
                    ELSE IF ins.m = 3 THEN [regs EXCEPT !.owned = @ \cup ({heap[n].val} \ {0}), !.ret = @ \cup ({heap[n].val} \ {0})]
                    ELSE [regs EXCEPT !.owned = @ \cup pair, !.ret = @ \cup pair], <<>>)
            /\ UNCHANGED <<index, nputs, panics>>
       [] ins.i = "freepair" ->            \* RawLRU::remove_lru: the node is freed, its pair moves into locals: it becomes "cand"
            LET n == R(ins.r)  pair == {heap[n].key, heap[n].val} \ {0} IN
            /\ heap' = [heap EXCEPT ![n].st = "freed"]
            /\ bad' = bad \cup (IF heap[n].st # "live" THEN {"double-free"} ELSE {})
            /\ Cont([regs EXCEPT !.owned = @ \cup pair, !.ck = KeyValOf(heap, n), !.ctk = heap[n].key, !.ctv = heap[n].val], <<>>)
            /\ UNCHANGED <<index, tok, nputs, panics>>
       [] ins.i = "handback" ->            \* the pair ins.r is returned to the caller (PutResult::Evicted { key, value })
            /\ Cont([regs EXCEPT !.ret = @ \cup ({PTK(regs, ins.r), PTV(regs, ins.r)} \ {0})], <<>>)
            /\ UNCHANGED <<heap, index, tok, nputs, bad, panics>>
       [] ins.i = "unwrap" ->
            IF R(ins.r) = 0 THEN InternalPanic ELSE Cont(regs, <<>>) /\ UNCHANGED <<heap, index, tok, nputs, bad, panics>>
       [] ins.i = "mov" ->                 \* regs[ins.r] := regs[ins.l]  (l holds the source register name)
            /\ Cont(SetR(regs, ins.r, R(ins.l)), <<>>) /\ UNCHANGED <<heap, index, tok, nputs, bad, panics>>
       [] ins.i = "clr" ->
            /\ Cont(SetR(regs, ins.r, 0), <<>>) /\ UNCHANGED <<heap, index, tok, nputs, bad, panics>>
       [] ins.i = "rawput1" ->             \* capturing_put after map.get_mut(&k)
            /\ IF regs.found # 0
               THEN Cont([regs EXCEPT !.res = "update"],
                         <<I("swapval", ins.r, "found", 0), I("detach", "", "found", 0), I("attach", ins.l, "found", 0)>>
                         \o (IF ins.m = 1 THEN <<I("retval", "", ins.r, 0)>> ELSE <<>>))
               ELSE IF LenOf(ins.l) = CapOf(ins.l)
               THEN Cont(regs, <<I("mapremove_tail", ins.l, "old", 0), I("swapkv", ins.r, "old", ins.m), I("detach", "", "old", 0),
                                  I("attach", ins.l, "old", 0), I("mapinsert", ins.l, "old", 0)>>)
               ELSE Cont([regs EXCEPT !.res = "put"], <<I("alloc", "", ins.r, 0), I("attach", ins.l, "new", 0), I("mapinsert", ins.l, "new", 0)>>)
            /\ UNCHANGED <<heap, index, tok, nputs, bad, panics>>
       [] ins.i = "retval" ->              \* PutResult::Update(v): the (swapped) value local of pair ins.r is handed back
            /\ Cont([regs EXCEPT !.ret = @ \cup ({PTV(regs, ins.r)} \ {0})], <<>>)
            /\ UNCHANGED <<heap, index, tok, nputs, bad, panics>>
       [] ins.i = "segput1" ->             \* SegmentedCache::put after protected.map.get_mut
            /\ IF regs.found # 0
               THEN Cont(regs, <<I("swapval", ins.r, "found", 0), I("detach", "", "found", 0), I("attach", "PT", "found", 0)>>
                               \o (IF ins.m = 1 THEN <<I("retval", "", ins.r, 0)>> ELSE <<>>))
               ELSE Cont(regs, <<I("lookup", "PB", ins.r, 0), I("segput2", "", ins.r, ins.m)>>)
            /\ UNCHANGED <<heap, index, tok, nputs, bad, panics>>
       [] ins.i = "segput2" ->             \* after probationary.contains(&k)
            /\ IF regs.found # 0
               THEN Cont(regs, <<I("mapremove_k", "PB", ins.r, 0), I("segput3", "", ins.r, ins.m)>>)
               ELSE Cont(regs, RawPut("PB", ins.r, ins.m))
            /\ UNCHANGED <<heap, index, tok, nputs, bad, panics>>
       [] ins.i = "segput3" ->             \* after probationary.remove_and_return_ent(&k)
            /\ IF regs.ent # 0
               THEN Cont(regs, <<I("detach", "", "ent", 0), I("swapval", ins.r, "ent", 0)>> \o Promote
                               \o (IF ins.m = 1 THEN <<I("retval", "", ins.r, 0)>> ELSE <<>>))
               ELSE Cont(regs, IF ins.m = 1 THEN <<I("retval", "", ins.r, 0)>> ELSE <<>>)
            /\ UNCHANGED <<heap, index, tok, nputs, bad, panics>>
       [] ins.i = "demote_rst" ->          \* the node protected pushed out goes to probationary; what that evicts is dropped
            /\ Cont(regs, IF regs.rst # 0 THEN <<I("put_nonnull", "PB", "rst", 0)>> ELSE <<>>)
            /\ UNCHANGED <<heap, index, tok, nputs, bad, panics>>
       [] ins.i = "put_nonnull" ->         \* m = 0: put_nonnull, PutResult dropped; 1: handed back; 2: put_or_evict_nonnull -> rst
            /\ IF LenOf(ins.l) >= CapOf(ins.l)
               THEN Cont(regs, <<I("mapremove_tail", ins.l, "old", 0), I("detach", "", "old", 0), I("attach", ins.l, ins.r, 0),
                                  I("mapinsert", ins.l, ins.r, 0)>>
                                \o (IF ins.m = 2 THEN <<I("mov", "old", "rst", 0)>> ELSE <<I("free", "", "old", ins.m)>>))
               ELSE Cont(regs, <<I("attach", ins.l, ins.r, 0), I("mapinsert", ins.l, ins.r, 0)>>
                                \o (IF ins.m = 2 THEN <<I("clr", "", "rst", 0)>> ELSE <<>>))
            /\ UNCHANGED <<heap, index, tok, nputs, bad, panics>>
       [] ins.i = "remove_lru_in" ->
            /\ IF heap[TailOf(ins.l)].prev = HeadOf(ins.l)
               THEN Cont(SetR(regs, ins.r, 0), <<>>)
               ELSE Cont(regs, <<I("mapremove_tail", ins.l, ins.r, 1), I("detach_if", "", ins.r, 0)>>)
            /\ UNCHANGED <<heap, index, tok, nputs, bad, panics>>
       [] ins.i = "detach_if" ->
            IF R(ins.r) = 0 THEN Cont(regs, <<>>) /\ UNCHANGED <<heap, index, tok, nputs, bad, panics>>
            ELSE /\ heap' = Detach(heap, R(ins.r)) /\ bad' = bad \cup DetachBad(heap, R(ins.r))
                 /\ Cont(regs, <<>>) /\ UNCHANGED <<index, tok, nputs, panics>>
       [] ins.i = "br" ->
            /\ Cont(regs, Branch(ins.m, regs)) /\ UNCHANGED <<heap, index, tok, nputs, bad, panics>>
       [] ins.i = "finish" ->
            LET ret == regs.ret
                drop == regs.owned \ ret
            IN /\ tok' = ReturnToks(DropToks(tok, drop), ret) /\ bad' = bad \cup DropBad(tok, drop)
               /\ prog' = <<>> /\ regs' = NoRegs
               /\ UNCHANGED <<heap, index, nputs, panics>>

Next == (\E k \in Keys : StartPut(k) \/ StartGet(k) \/ StartRemove(k)) \/ Exec
Spec == Init /\ [][Next]_vars

(* ------------------------------ properties ---------------------------- *)
Safe == bad = {}
RECURSIVE Walk(_, _, _, _, _)
Walk(h, l, n, fwd, fuel) ==
  IF fuel = 0 THEN <<>> ELSE
  LET x == IF fwd THEN h[n].next ELSE h[n].prev IN
  IF (fwd /\ x = TailOf(l)) \/ (~fwd /\ x = HeadOf(l)) THEN <<>> ELSE <<x>> \o Walk(h, l, x, fwd, fuel - 1)
Fwd(l) == Walk(heap, l, HeadOf(l), TRUE, MaxPuts + 1)
Bwd(l) == Walk(heap, l, TailOf(l), FALSE, MaxPuts + 1)
Rev(s) == [i \in 1..Len(s) |-> s[Len(s) + 1 - i]]
SeqSet(s) == {s[i] : i \in 1..Len(s)}
WFList(l) ==
  /\ Bwd(l) = Rev(Fwd(l)) /\ Cardinality(SeqSet(Fwd(l))) = Len(Fwd(l))
  /\ SeqSet(Fwd(l)) = {e.n : e \in IdxOf(l)} /\ Len(Fwd(l)) = LenOf(l) /\ LenOf(l) <= CapOf(l)
  /\ \A e \in IdxOf(l) : heap[e.n].st = "live" /\ KeyValOf(heap, e.n) = e.k
\* C03 (structure) and C01 (bounds, a key in at most one list) for panic-free histories
WF == (Idle /\ panics = 0) =>
        /\ \A l \in Lists : WFList(l)
        /\ \A l1, l2 \in Lists : l1 # l2 => /\ SeqSet(Fwd(l1)) \cap SeqSet(Fwd(l2)) = {}
                                            /\ {e.k : e \in IdxOf(l1)} \cap {e.k : e \in IdxOf(l2)} = {}
\* after panics: whatever is reachable through a chain or an index is alive, and objects in reachable nodes are alive
Reachable == Idle =>
  \A l \in Lists :
     /\ \A i \in 1..Len(Fwd(l)) : heap[Fwd(l)[i]].st = "live" /\ heap[Fwd(l)[i]].key # 0
                                    /\ tok[heap[Fwd(l)[i]].key].st = "live" /\ tok[heap[Fwd(l)[i]].val].st = "live"
     /\ \A e \in IdxOf(l) : heap[e.n].st = "live"
\* C04 for panic-free histories: every minted object is in exactly one live node, or returned, or dropped
Accounted == (Idle /\ panics = 0) =>
  \A t \in Toks : tok[t].st = "live" <=> (\E n \in NodeIds : heap[n].st = "live" /\ (heap[n].key = t \/ heap[n].val = t))
=============================================================================
