------------------------------ MODULE Props ------------------------------
(***************************************************************************)
(* The property predicates, written once over a NORMALISED VIEW of a cache *)
(* state and over (pre, event, post) triples, so that the same text is     *)
(* evaluated                                                                *)
(*   (A) on the transitions of the policy specifications by TLC            *)
(*       (MC*.tla: pre/post are specification states), and                 *)
(*   (C) on the transitions of the implementation during trace validation  *)
(*       (the Trace modules: pre/post are observations logged by the harness).    *)
(*                                                                         *)
(* A view n is a record                                                    *)
(*   parts    : sequence of recency lists (each a Seq of [k, v]),          *)
(*   res      : set of indices of the RESIDENT partitions (others: ghosts), *)
(*   bounds   : per-partition configured bound,                            *)
(*   resBound : configured bound on the number of resident entries,        *)
(*   len, cap, empty : what len()/cap()/is_empty() answered,               *)
(*   contains : set of keys for which contains() answered true,            *)
(*   peek     : set of <<k, v>> pairs peek() answered (over the universe). *)
(* These predicates assume only what the property statements say; they do  *)
(* not know any eviction policy (that is PolicyStep in the Trace modules).*)
(***************************************************************************)
EXTENDS LRUList, TLC

SeqToSet(s) == {s[i] : i \in 1..Len(s)}
RECURSIVE Concat(_)
Concat(ss) == IF Len(ss) = 0 THEN <<>> ELSE Head(ss) \o Concat(Tail(ss))
AllEntries(n) == Concat(n.parts)
ResEntries(n) == Concat([i \in 1..Len(n.parts) |-> IF i \in n.res THEN n.parts[i] ELSE <<>>])
GhostEntries(n) == Concat([i \in 1..Len(n.parts) |-> IF i \in n.res THEN <<>> ELSE n.parts[i]])
RetMap(n) == PairsOf(AllEntries(n))      \* retained (resident or ghost) as <<k, v>> pairs
ResMap(n) == PairsOf(ResEntries(n))
GhostMap(n) == PairsOf(GhostEntries(n))
ResKeys(n) == KeysOf(ResEntries(n))
RetKeys(n) == KeysOf(AllEntries(n))
MapGet(m, k) == (CHOOSE x \in m : x[1] = k)[2]
MapHas(m, k) == \E x \in m : x[1] = k

\* view of a SPECIFICATION state: the observables are derived from the lists
SpecView(parts, res, bounds, resBound) ==
  LET n0 == [parts |-> parts, res |-> res, bounds |-> bounds, resBound |-> resBound] IN
  [parts |-> parts, res |-> res, bounds |-> bounds, resBound |-> resBound,
   len |-> Len(ResEntries(n0)), cap |-> resBound, empty |-> (Len(AllEntries(n0)) = 0),
   contains |-> ResKeys(n0), peek |-> ResMap(n0)]
\* view of an OBSERVATION o logged by the harness (o.contains: array of keys, o.peek: array of [k, v])
ObsView(parts, res, bounds, resBound, o) ==
  [parts |-> parts, res |-> res, bounds |-> bounds, resBound |-> resBound,
   len |-> o.len, cap |-> o.cap, empty |-> o.empty,
   contains |-> SeqToSet(o.contains), peek |-> PairsOf(o.peek)]

(* ---------------------------------------------------------------------- *)
(* C01  capacity bound and size accounting                                 *)
(* ---------------------------------------------------------------------- *)
C01View(n) ==
  /\ \A i \in 1..Len(n.parts) : Len(n.parts[i]) <= n.bounds[i]
  /\ Len(ResEntries(n)) <= n.cap
  /\ n.cap = n.resBound
  /\ NoDupKeys(AllEntries(n))                       \* a key is held in at most one partition
  /\ n.len = Cardinality(n.contains)                \* len() = #{k : contains(k)}
  /\ n.len = Len(ResEntries(n))
  /\ n.empty = (Len(AllEntries(n)) = 0)             \* is_empty() <=> nothing retained, ghosts included

(* ---------------------------------------------------------------------- *)
(* C02  coherence                                                          *)
(* A lookup event names key ev.k; reads \in {get,get_mut,peek,peek_mut}    *)
(* answer ev.ret = Some(v)/None; contains answers Bool.                    *)
(* stored(pre) is the resident map of the pre-state: the value most        *)
(* recently stored for each resident key.                                  *)
(* ---------------------------------------------------------------------- *)
LookupOps == {"get", "get_mut", "peek", "peek_mut"}
PutLikeOps == {"put", "put_protected", "peek_or_put", "peek_mut_or_put", "contains_or_put"}
EndMutOps == {"get_lru_mut", "get_mru_mut", "peek_lru_mut", "peek_mru_mut", "peek_end_mut"}
RemoveEndOps == {"remove_lru", "remove_lru_from"}
\* the PutResult carried by an event's return value (RNone when there is none)
EvPR(ev) == IF IsPutResult(ev.ret) THEN ev.ret
            ELSE IF ev.ret.t = "Pair" /\ IsPutResult(ev.ret.b) THEN ev.ret.b ELSE RNone
HasW(ev) == "w" \in DOMAIN ev /\ ev.w # 0
MapSet(m, k, v) == {x \in m : x[1] # k} \cup {<<k, v>>}

\* the three ways of asking "is k resident?" agree, in every observed state
C02View(n) ==
  /\ n.contains = ResKeys(n)
  /\ n.peek = ResMap(n)

\* the stored map (key -> value most recently stored, over everything the cache
\* still retains) after this event's own writes
C02Stored(pre, ev) ==
  LET st == RetMap(pre) IN
  CASE ev.op \in PutLikeOps /\ IsPutResult(EvPR(ev)) -> MapSet(st, ev.k, ev.v)
    [] ev.op \in {"get_mut", "peek_mut", "peek_mut_or_put"} /\ HasW(ev) /\ MapHas(ResMap(pre), ev.k)
         -> MapSet(st, ev.k, ev.w)
    [] ev.op \in EndMutOps /\ HasW(ev) /\ ev.ret.t = "SomeKV" -> MapSet(st, ev.ret.k, ev.w)
    [] OTHER -> st
\* keys this event releases: removed, purged, reported evicted
C02Released(pre, ev) ==
  LET pr == EvPR(ev) IN
       (IF ev.op = "remove" THEN {ev.k} ELSE {})
  \cup (IF ev.op = "purge" THEN RetKeys(pre) ELSE {})
  \cup (IF ev.op \in RemoveEndOps /\ ev.ret.t = "SomeKV" THEN {ev.ret.k} ELSE {})
  \cup (IF pr.t \in {"Evicted", "EvictedAndUpdate"} THEN {pr.ek} ELSE {})

C02Step(pre, ev, post) ==
  LET res == ResMap(pre) IN
  /\ C02View(post)
  \* a hit returns exactly the stored value; hit/miss agrees with residency
  /\ ev.op \in LookupOps =>
       ev.ret = (IF MapHas(res, ev.k) THEN RSome(MapGet(res, ev.k)) ELSE RNone)
  /\ ev.op = "contains" => ev.ret = RBool(MapHas(res, ev.k))
  \* remove hands the stored value back exactly once
  /\ ev.op = "remove" =>
       /\ MapHas(res, ev.k) => ev.ret = RSome(MapGet(res, ev.k))
       /\ ~MapHas(res, ev.k) /\ ~MapHas(RetMap(pre), ev.k) => ev.ret = RNone
       /\ ~MapHas(RetMap(post), ev.k)
  \* whatever is resident afterwards carries its stored value and was not released
  /\ \A x \in ResMap(post) : x \in C02Stored(pre, ev) /\ x[1] \notin C02Released(pre, ev)

(* ---------------------------------------------------------------------- *)
(* C12  PutResult tells the truth                                          *)
(* pr is the PutResult of a put-like event that stored (k, v).             *)
(* silentGhostDiscard: ARC may drop ghost entries without reporting them.  *)
(* ---------------------------------------------------------------------- *)
C12Put(pre, k, v, pr, post, silentGhostDiscard) ==
  LET R   == RetMap(pre)
      R2  == RetMap(post)
      had == MapHas(R, k)
      old == MapGet(R, k)
      Exp(minus) == (R \ minus) \cup {<<k, v>>}
      \* ARC: ghosts may be discarded silently.  In a cache of size 1 the victim of a put of a NEW key
      \* becomes a ghost and is trimmed again in the same call (the ghost lists have capacity 1 and are
      \* trimmed with lengths measured before the victim arrived); only then may ONE entry that was
      \* resident be among the lost ones.  (For size >= 2 the trimmed ghost is always an old one, and
      \* on a ghost hit - Update - nothing is trimmed: a resident lost there is a real loss.)
      Same(exp) == IF silentGhostDiscard
                   THEN LET lost == exp \ R2
                            lostRes == lost \cap ResMap(pre)
                        IN /\ R2 \subseteq exp /\ <<k, v>> \in R2
                           /\ (lost \ lostRes) \subseteq GhostMap(pre)
                           /\ Cardinality(lostRes) <= (IF pr.t = "Put" /\ pre.cap = 1 /\ Len(ResEntries(pre)) >= pre.cap THEN 1 ELSE 0)
                   ELSE R2 = exp
  IN CASE pr.t = "Put" ->
            /\ ~had /\ Same(Exp({})) /\ <<k, v>> \in ResMap(post)
       [] pr.t = "Update" ->
            /\ had /\ pr.old = old /\ Same(Exp({<<k, old>>})) /\ <<k, v>> \in ResMap(post)
       [] pr.t = "Evicted" ->
            IF pr.ek = k /\ pr.ev = v
            THEN \* the pair itself is handed back: only a cache of capacity 0 may do that
                 /\ ~had /\ pre.cap = 0 /\ R2 = R
            ELSE /\ ~had /\ <<pr.ek, pr.ev>> \in R /\ pr.ek # k
                 /\ Same(Exp({<<pr.ek, pr.ev>>})) /\ <<k, v>> \in ResMap(post)
       [] pr.t = "EvictedAndUpdate" ->
            /\ had /\ pr.old = old /\ <<pr.ek, pr.ev>> \in R /\ pr.ek # k
            /\ Same(Exp({<<pr.ek, pr.ev>>, <<k, old>>})) /\ <<k, v>> \in ResMap(post)
       [] OTHER -> FALSE

(* ---------------------------------------------------------------------- *)
(* C04  ownership conservation, on token sets                              *)
(* held(pre) \cup handed-in = held(post) \cup handed-back \cup dropped,    *)
(* all three on the right pairwise disjoint, nothing dropped twice.        *)
(* ---------------------------------------------------------------------- *)
C04Tokens(heldPre, in, heldPost, out, drops) ==
  LET D == SeqToSet(drops) IN
  /\ Cardinality(D) = Len(drops)                       \* nothing dropped twice
  /\ heldPost \cap D = {}                              \* nothing dropped while still reachable
  /\ heldPost \cap out = {} /\ out \cap D = {}
  /\ heldPre \cup in = heldPost \cup out \cup D        \* nothing lost, nothing invented
\* tokens held by a state: tokParts is a sequence (one per partition) of sequences of <<key token, value token>>;
\* token 0 means "untracked" (String keys)
HeldToks(tokParts) ==
  UNION {UNION {{tokParts[i][j][1], tokParts[i][j][2]} : j \in 1..Len(tokParts[i])} : i \in 1..Len(tokParts)} \ {0}
TokCount(tokParts) == LET all == Concat(tokParts) IN Len(all)
\* every retained object is a distinct, live object
C04Distinct(tokParts) ==
  LET all == Concat(tokParts)
      ks == {all[j][1] : j \in 1..Len(all)} \ {0}
      vs == {all[j][2] : j \in 1..Len(all)}
  IN Cardinality(vs) = Len(all) /\ (0 \in {all[j][1] : j \in 1..Len(all)} \/ Cardinality(ks) = Len(all)) /\ ks \cap vs = {}
\* one event of the implementation, judged on tokens (see C04Tokens)
C04Event(preTok, ev, postTok) ==
  /\ ev.anomalies = <<>>
  /\ IF ev.op = "drop"
     THEN \* dropping the cache releases everything it still held, once, and every allocation it made
          /\ SeqToSet(ev.drops) = HeldToks(preTok) /\ Cardinality(SeqToSet(ev.drops)) = Len(ev.drops)
          /\ ev.live = 0
     ELSE /\ C04Distinct(postTok)
          /\ C04Tokens(HeldToks(preTok), SeqToSet(ev.in), HeldToks(postTok), SeqToSet(ev.out), ev.drops)
          /\ ev.op = "purge" => HeldToks(postTok) = {}

(* ---------------------------------------------------------------------- *)
(* C18  panic safety.  A call into user code panicked somewhere inside an  *)
(* earlier (or this) operation.  Entries may leak and operations may fail, *)
(* but: nothing is dropped twice (this event's drops are disjoint from     *)
(* everything dropped or handed back before, and from each other), nothing *)
(* handed back was already released, no released object and no freed node  *)
(* is still reachable through the cache, and the harness' memory monitor   *)
(* (magic fields, quarantine, double-free detection) saw no anomaly.       *)
(* ev.gone_before: tokens dropped or handed back earlier in this test.     *)
(* ---------------------------------------------------------------------- *)
C18Event(ev, hasObs, postTok, audit) ==
  LET gone == SeqToSet(ev.gone_before)
      D == SeqToSet(ev.drops)
      out == IF "out" \in DOMAIN ev THEN SeqToSet(ev.out) ELSE {}
  IN /\ ev.anomalies = <<>>
     /\ Cardinality(D) = Len(ev.drops)
     /\ D \cap gone = {} /\ out \cap gone = {} /\ out \cap D = {}
     /\ IF hasObs
        THEN /\ HeldToks(postTok) \cap (gone \cup D \cup out) = {}
             /\ C04Distinct(postTok)
             /\ \A i \in 1..Len(audit) : audit[i].freed_reachable = 0
        ELSE TRUE

(* ---------------------------------------------------------------------- *)
(* C03  structural audit of every inner intrusive list                     *)
(* a.fwd / a.bwd: node ids met walking next / prev between the sentinels;  *)
(* a.idx: for every hash-index entry <<node the index key points into,     *)
(* node the entry maps to>>; ids are canonicalised addresses.              *)
(* ---------------------------------------------------------------------- *)
C03List(a) ==
  /\ a.closed                                         \* both walks reach the opposite sentinel
  /\ Len(a.fwd) = a.len /\ Len(a.bwd) = a.len          \* exactly len() nodes between the sentinels
  /\ a.bwd = Rev(a.fwd)                               \* a well-formed doubly linked chain
  /\ Cardinality(SeqToSet(a.fwd)) = Len(a.fwd)         \* no node twice
  /\ Len(a.idx) = a.len
  /\ {a.idx[i][2] : i \in 1..Len(a.idx)} = SeqToSet(a.fwd)   \* nodes are exactly the index entries
  /\ \A i \in 1..Len(a.idx) : a.idx[i][1] = a.idx[i][2]     \* every index key points at its own node's key
  /\ a.head \notin SeqToSet(a.fwd) /\ a.tail \notin SeqToSet(a.fwd) /\ a.head # a.tail
C03Audit(o) ==
  /\ \A i \in 1..Len(o.audit) : C03List(o.audit[i])
  /\ \A i, j \in 1..Len(o.audit) : i # j =>
        (SeqToSet(o.audit[i].fwd) \cup {o.audit[i].head, o.audit[i].tail})
          \cap (SeqToSet(o.audit[j].fwd) \cup {o.audit[j].head, o.audit[j].tail}) = {}

(* ---------------------------------------------------------------------- *)
(* All generic step predicates together, as used on SPECIFICATION steps in *)
(* the MC modules (design-level check that the policy specifications       *)
(* satisfy C01/C02/C12/C13, i.e. that these predicates do not demand more  *)
(* than the intended behaviour delivers).                                  *)
(* ---------------------------------------------------------------------- *)
GenericStepOK(pre, ev, post, readOnlyOps, silentGhostDiscard) ==
  /\ Assert(C01View(post), <<"C01 fails on spec step", ev, post>>)
  /\ Assert(C02Step(pre, ev, post), <<"C02 fails on spec step", pre, ev, post>>)
  /\ Assert(IsPutResult(EvPR(ev)) => C12Put(pre, ev.k, ev.v, EvPR(ev), post, silentGhostDiscard),
            <<"C12 fails on spec step", pre, ev, post>>)
  /\ Assert(ev.op \in readOnlyOps => post = pre, <<"C13 fails on spec step", ev>>)
=============================================================================
