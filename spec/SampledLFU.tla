----------------------------- MODULE SampledLFU -----------------------------
(***************************************************************************)
(* SampledLFU cost tracker (src/lfu/sampled.rs).                           *)
(* State: [costs |-> set of <<key, cost>> with distinct keys (the tracked  *)
(*         map), max |-> max cost].  `used` is DEFINED as the sum of the   *)
(* recorded costs - the implementation maintains it incrementally and C20  *)
(* says the two never drift apart.                                          *)
(* Keys are model keys 1..n; which 64-bit hash a key has is the driver's   *)
(* business (the *_hashed_key flavour of an operation is the same abstract *)
(* operation).                                                              *)
(***************************************************************************)
EXTENDS Integers, Sequences, FiniteSets

RECURSIVE SumCosts(_)
SumCosts(S) == IF S = {} THEN 0 ELSE LET x == CHOOSE y \in S : TRUE IN x[2] + SumCosts(S \ {x})
LInit(max) == [costs |-> {}, max |-> max]
LHas(s, k) == \E x \in s.costs : x[1] = k
LCost(s, k) == (CHOOSE x \in s.costs : x[1] = k)[2]
LWithout(s, k) == {x \in s.costs : x[1] # k}
LUsed(s) == SumCosts(s.costs)
LRoom(s, c) == s.max - LUsed(s) - c
L2(st, ret) == [st |-> st, ret |-> ret]

LApply(op, s) ==
  CASE op.op \in {"increment", "increment_hashed"} ->      \* track k with cost c (replacing any recorded cost)
         L2([s EXCEPT !.costs = LWithout(s, op.k) \cup {<<op.k, op.c>>}], [t |-> "Unit"])
    [] op.op \in {"update", "update_hashed"} ->
         IF LHas(s, op.k) THEN L2([s EXCEPT !.costs = LWithout(s, op.k) \cup {<<op.k, op.c>>}], [t |-> "Bool", b |-> TRUE])
         ELSE L2(s, [t |-> "Bool", b |-> FALSE])
    [] op.op \in {"remove", "remove_hashed"} ->
         IF LHas(s, op.k) THEN L2([s EXCEPT !.costs = LWithout(s, op.k)], [t |-> "SomeInt", n |-> LCost(s, op.k)])
         ELSE L2(s, [t |-> "None"])
    [] op.op = "clear" -> L2([s EXCEPT !.costs = {}], [t |-> "Unit"])
    [] op.op = "update_max_cost" -> L2([s EXCEPT !.max = op.c], [t |-> "Unit"])
    [] op.op = "room_left" -> L2(s, [t |-> "Int", n |-> LRoom(s, op.c)])
    [] op.op = "get_max_cost" -> L2(s, [t |-> "Int", n |-> s.max])
    [] op.op = "ro" -> L2(s, [t |-> "Unit"])

\* fill_sample(in) with sample size `samples`: result is `in` followed by DISTINCT tracked pairs
\* until the sample size is reached (or the tracked pairs run out); unchanged if `in` is long enough
FillOK(s, samples, in, out) ==
  LET n == Len(in)
      want == IF n >= samples THEN n
              ELSE IF n + Cardinality(s.costs) < samples THEN n + Cardinality(s.costs) ELSE samples
  IN /\ Len(out) = want
     /\ SubSeq(out, 1, n) = in
     /\ \A i \in n + 1..Len(out) : out[i] \in s.costs
     /\ \A i, j \in n + 1..Len(out) : i # j => out[i][1] # out[j][1]

LOps(Keys, Costs, Maxes) ==
       [op : {"increment", "increment_hashed", "update", "update_hashed"}, k : Keys, c : Costs]
  \cup [op : {"remove", "remove_hashed"}, k : Keys]
  \cup [op : {"update_max_cost"}, c : Maxes]
  \cup [op : {"room_left"}, c : Costs]
  \cup [op : {"clear", "ro"}]
=============================================================================
