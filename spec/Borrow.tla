------------------------------- MODULE Borrow -------------------------------
(* C19: the aliasing discipline a safe client of the cache types is held to, and the    *)
(* thread-transfer discipline of the cache and iterator types, over a TABLE of the      *)
(* public reference-returning methods (extracted from the library sources at check      *)
(* time, see bin/c19.py) and of the cache / iterator types.                             *)
(*                                                                                      *)
(* The module assigns a verdict ("accept" / "reject" / "either") to short straight-line *)
(* client programs.  It does not decide anything about the library: the programs are    *)
(* rendered as Rust functions and rustc is asked; a program that rustc accepts although *)
(* this module rejects it is a violation of C19.                                        *)
EXTENDS Naturals, Sequences, FiniteSets

CONSTANTS
    Methods,   \* set of [id, type, name, recv, ret]:
               \*   recv \in {"shared","mut"}   -- the method takes &self / &mut self
               \*   ret  \in {"shared","mut","iter_shared","iter_mut"} -- what it hands out
    Types      \* set of [name, class], class \in {"cache","iter_shared","iter_mut"}

RecvKinds == {"shared", "mut"}
RetKinds  == {"shared", "mut", "iter_shared", "iter_mut"}
Classes   == {"cache", "iter_shared", "iter_mut"}

TablesOK ==
    /\ \A m \in Methods : /\ DOMAIN m = {"id", "type", "name", "recv", "ret"}
                          /\ m.recv \in RecvKinds
                          /\ m.ret \in RetKinds
    /\ \A m1, m2 \in Methods : m1.id = m2.id => m1 = m2
    /\ \A t \in Types : DOMAIN t = {"name", "class"} /\ t.class \in Classes
    /\ \A t1, t2 \in Types : t1.name = t2.name => t1 = t2

-----------------------------------------------------------------------------
(* Client programs.  A program is a sequence of statements over ONE cache `c` and ONE   *)
(* method m of the table:                                                               *)
(*   take v     : let v = <reference or iterator obtained from c through m>;            *)
(*   clone v s  : let v = s.clone();   -- a duplicate of the result held in s           *)
(*   next v s   : let v = s.next();    -- the next item of the iterator held in s       *)
(*   use v      : v is read (keeps the loan v stems from alive up to here)              *)
(*   mutate     : c.put(..)      -- a &mut self call                                    *)
(*   read       : c.len()        -- a &self call                                        *)
(*   drop       : drop(c)        -- the cache's lifetime ends                           *)
Take(v)       == [op |-> "take",   var |-> v,  src |-> ""]
CloneOf(v, s) == [op |-> "clone",  var |-> v,  src |-> s]
NextOf(v, s)  == [op |-> "next",   var |-> v,  src |-> s]
Use(v)        == [op |-> "use",    var |-> v,  src |-> ""]
Mutate        == [op |-> "mutate", var |-> "", src |-> ""]
Read          == [op |-> "read",   var |-> "", src |-> ""]
DropC         == [op |-> "drop",   var |-> "", src |-> ""]

Shapes == {"hold_across_mutation", "hold_across_read", "outlive", "double", "use_then_mutate",
           "clone_result"}

IsIter(m) == m.ret \in {"iter_shared", "iter_mut"}

(* How the reference is obtained: directly (the method's result is held), or, for a     *)
(* method that returns an iterator, additionally as the first item the iterator yields  *)
(* (the item borrows from the cache exactly like the iterator does).                    *)
Vias(m) == IF IsIter(m) THEN {"direct", "item"} ELSE {"direct"}

(* "clone_result": the result is duplicated and both copies are used; when the result   *)
(* is an iterator (held directly) both copies are also advanced and both items used --  *)
(* if the iterator yields &mut V these are two live mutable references to one value.    *)
Program(m, shape, via) ==
    CASE shape = "hold_across_mutation" -> << Take("r1"), Mutate, Use("r1") >>
      [] shape = "hold_across_read"     -> << Take("r1"), Read,   Use("r1") >>
      [] shape = "outlive"              -> << Take("r1"), DropC,  Use("r1") >>
      [] shape = "double"               -> << Take("r1"), Take("r2"), Use("r1"), Use("r2") >>
      [] shape = "use_then_mutate"      -> << Take("r1"), Use("r1"), Mutate >>
      [] shape = "clone_result"         ->
            IF IsIter(m) /\ via = "direct"
            THEN << Take("r1"), CloneOf("r2", "r1"), NextOf("x1", "r1"), NextOf("x2", "r2"),
                    Use("x1"), Use("x2"), Use("r1"), Use("r2") >>
            ELSE << Take("r1"), CloneOf("r2", "r1"), Use("r1"), Use("r2") >>

-----------------------------------------------------------------------------
(* Loans.  The loan kind follows the RECEIVER: a result obtained through &mut self      *)
(* keeps the cache mutably borrowed even if the reference handed out is shared; a       *)
(* result that is (or yields) a mutable reference is exclusive whatever the receiver.   *)
MutResult(m) == m.ret \in {"mut", "iter_mut"}
Exclusive(m) == m.recv = "mut" \/ MutResult(m)

(* A duplicate (clone) and an item (next) carry the loan of the result they stem from.  *)
DefStmt(prog, v) == CHOOSE i \in 1..Len(prog) : prog[i].var = v /\ prog[i].op \in {"take", "clone", "next"}
RECURSIVE Root(_, _)
Root(prog, v) == LET d == prog[DefStmt(prog, v)]
                 IN  IF d.op = "take" THEN v ELSE Root(prog, d.src)

(* statement k needs the loan taken into variable v *)
Touches(prog, k, v) ==
    \/ prog[k].op = "use" /\ Root(prog, prog[k].var) = v
    \/ prog[k].op \in {"clone", "next"} /\ Root(prog, prog[k].src) = v

(* the loan created by statement i is live when statement j executes (non-lexical:      *)
(* up to the last statement that needs it)                                              *)
LoanLive(prog, i, j) ==
    /\ prog[i].op = "take"
    /\ i < j
    /\ \E k \in j..Len(prog) : Touches(prog, k, prog[i].var)

(* statement j is forbidden by a loan that is live across it *)
Conflict(m, prog, j) ==
    \E i \in 1..(j - 1) :
        /\ LoanLive(prog, i, j)
        /\ CASE prog[j].op = "mutate" -> TRUE           \* &mut self needs the cache unborrowed
             [] prog[j].op = "drop"   -> TRUE           \* no loan may outlive the cache
             [] prog[j].op = "read"   -> Exclusive(m)   \* &self is fine under a shared loan only
             [] prog[j].op = "take"   -> Exclusive(m)   \* second result of m next to a live first one
             [] prog[j].op = "clone"  -> MutResult(m)   \* a mutable reference (or what yields one) cannot be duplicated
             [] OTHER                 -> FALSE          \* a use / next conflicts with nothing

ConflictsAt(m, prog) == { j \in 1..Len(prog) : Conflict(m, prog, j) }

Verdict(m, prog) == IF ConflictsAt(m, prog) = {} THEN "accept" ELSE "reject"

Min(S) == CHOOSE x \in S : \A y \in S : x <= y
(* the first statement the compiler is expected to complain about (0: none) *)
FirstConflict(m, prog) == IF ConflictsAt(m, prog) = {} THEN 0 ELSE Min(ConflictsAt(m, prog))

BorrowProbes ==
    UNION { { [kind   |-> "borrow", id |-> m.id, type |-> m.type, name |-> m.name,
               recv   |-> m.recv, ret |-> m.ret, via |-> v, shape |-> s, prog |-> Program(m, s, v),
               expect |-> Verdict(m, Program(m, s, v)), at |-> FirstConflict(m, Program(m, s, v))]
              : s \in Shapes, v \in Vias(m) }
            : m \in Methods }

(* the table the property text gives, as a theorem about the rules above *)
BorrowRulesOK ==
    \A m \in Methods : \A v \in Vias(m) :
        /\ Verdict(m, Program(m, "hold_across_mutation", v)) = "reject"
        /\ Verdict(m, Program(m, "outlive", v)) = "reject"
        /\ Verdict(m, Program(m, "use_then_mutate", v)) = "accept"
        /\ Verdict(m, Program(m, "hold_across_read", v)) = (IF Exclusive(m) THEN "reject" ELSE "accept")
        /\ Verdict(m, Program(m, "double", v)) = (IF Exclusive(m) THEN "reject" ELSE "accept")
        /\ Verdict(m, Program(m, "clone_result", v)) = (IF MutResult(m) THEN "reject" ELSE "accept")
        /\ MutResult(m) => FirstConflict(m, Program(m, "clone_result", v)) = 2

-----------------------------------------------------------------------------
(* Thread transfer.  Element kinds: "plain" u64 (Send + Sync), "cell" Cell<u64> (Send,  *)
(* not Sync), "rc" Rc<u64> (neither), "cellkey" a struct with a u64 id and a Cell<u64>  *)
(* counter that hashes / compares on the id only (Send, not Sync, and Hash + Eq).  An   *)
(* element kind is used as the VALUE type or as the KEY type, where it can be one:      *)
(* Cell is not Hash, so the Send-but-not-Sync key is "cellkey"; Rc<u64> is Hash + Eq.   *)
(* "guard" is a value that is Sync but NOT Send (a MutexGuard, a thread-bound handle):  *)
(* it tells the mutable iterators (which hand out &mut V, so that safe code can move a  *)
(* V out with mem::replace: sending them sends V) from the shared ones.                 *)
Kinds   == {"plain", "cell", "rc", "cellkey", "guard"}
Markers == {"Send", "Sync"}
IsSend(k) == k \in {"plain", "cell", "cellkey"}
IsSync(k) == k \in {"plain", "guard"}

Elems == { [pos |-> "value", elem |-> k] : k \in {"plain", "cell", "rc", "guard"} }
         \cup { [pos |-> "key", elem |-> k] : k \in {"rc", "cellkey"} }
KeyKind(e) == IF e.pos = "key" THEN e.elem ELSE "plain"
ValKind(e) == IF e.pos = "value" THEN e.elem ELSE "plain"

(* what the contents justify:                                                           *)
(*   a cache owns K and V;                                                              *)
(*   a shared iterator holds &K and &V: sending or sharing it shares K and V;           *)
(*   a mutable iterator holds &K and &mut V: sending it shares K and sends V.           *)
Justified(class, marker, kk, vk) ==
    CASE class = "cache" ->
            IF marker = "Send" THEN IsSend(kk) /\ IsSend(vk) ELSE IsSync(kk) /\ IsSync(vk)
      [] class = "iter_shared" -> IsSync(kk) /\ IsSync(vk)
      [] class = "iter_mut" ->
            IF marker = "Send" THEN IsSync(kk) /\ IsSend(vk) ELSE IsSync(kk) /\ IsSync(vk)

(* Unjustified transfers must be rejected.  Transfers of plain contents must be         *)
(* accepted (positive controls), and so must sending a cache whose contents are Send:   *)
(* a cache owns its keys and values, and this control shows that the Send-but-not-Sync  *)
(* element kinds really are Send, i.e. that the Sync verdicts are about Sync.  Anything *)
(* else is justified but a library may be conservative about it: "either", not checked. *)
MarkerVerdict(class, marker, e) ==
    IF ~Justified(class, marker, KeyKind(e), ValKind(e)) THEN "reject"
    ELSE IF KeyKind(e) = "plain" /\ ValKind(e) = "plain" THEN "accept"
    ELSE IF class = "cache" /\ marker = "Send" THEN "accept"
    ELSE "either"

MarkerProbes ==
    { [kind |-> "marker", id |-> t.name, type |-> t.name, class |-> t.class, marker |-> mk,
       elem |-> e.elem, pos |-> e.pos, expect |-> MarkerVerdict(t.class, mk, e)]
      : t \in Types, mk \in Markers, e \in Elems }

MarkerRulesOK ==
    \A t \in Types, mk \in Markers, e \in Elems :
        /\ e.elem = "rc" => MarkerVerdict(t.class, mk, e) = "reject"
        /\ e.elem = "plain" => MarkerVerdict(t.class, mk, e) = "accept"
        /\ (e.elem = "cell" /\ mk = "Sync") => MarkerVerdict(t.class, mk, e) = "reject"
        /\ (e.elem = "cell" /\ t.class = "iter_shared") => MarkerVerdict(t.class, mk, e) = "reject"
        \* a Sync-but-not-Send VALUE: neither a cache (owns V) nor a mutable iterator (hands out &mut V) may be sent
        /\ (e.elem = "guard" /\ mk = "Send" /\ t.class \in {"cache", "iter_mut"}) => MarkerVerdict(t.class, mk, e) = "reject"
        \* a Send-but-not-Sync KEY: a cache may be sent but not shared; every iterator hands out &K
        /\ e.elem = "cellkey" =>
              MarkerVerdict(t.class, mk, e) = (IF t.class = "cache" /\ mk = "Send" THEN "accept" ELSE "reject")
=============================================================================
