------------------------------- MODULE Iter -------------------------------
(***************************************************************************)
(* Double-ended cursor machine over a snapshot of a recency list (C14).    *)
(* A list has n entries, index 1 = most recent.  An iterator of kind       *)
(* "mru" walks 1, 2, ..., n with next() and n, n-1, ... with next_back();  *)
(* kind "lru" is its exact reverse.  State: (lo, hi) = the two cursors     *)
(* into the traversal order; rem = hi - lo + 1 entries are still to come.  *)
(* word: sequence of steps <<dir, skip>>: dir "n" (front) or "b" (back);   *)
(* skip = -1 is next() / next_back(); skip = k >= 0 is nth(k) / nth_back(k)*)
(* which discards k entries and yields the next one, or exhausts the       *)
(* iterator when fewer than k + 1 entries are left.  After the word the    *)
(* iterator is consumed by one of count(), last(), fold (collect), rfold.  *)
(***************************************************************************)
EXTENDS Integers, Sequences, LRUList

Order(list, kind) == IF kind = "lru" THEN Rev(list) ELSE list
\* projection of an entry according to the iterator family: entries, keys only, values only
Proj(e, proj) == CASE proj = "kv" -> <<e.k, e.v>> [] proj = "k" -> <<e.k, 0>> [] proj = "v" -> <<0, e.v>>
NoItem == <<>>

Dir(st) == st[1]
Skip(st) == IF st[2] < 0 THEN 0 ELSE st[2]
\* cursor state after a prefix of the word
RECURSIVE Cursor(_, _, _, _)
Cursor(word, i, lo, hi) ==
  IF i = 0 THEN <<lo, hi>>
  ELSE LET c == Cursor(word, i - 1, lo, hi) IN
       IF c[1] > c[2] THEN c
       ELSE IF Skip(word[i]) >= c[2] - c[1] + 1 THEN <<c[2] + 1, c[2]>>            \* fewer than skip+1 left: exhausted
       ELSE IF Dir(word[i]) = "n" THEN <<c[1] + Skip(word[i]) + 1, c[2]>> ELSE <<c[1], c[2] - Skip(word[i]) - 1>>
\* index (into the traversal order) of what step i of the word yields; 0 = nothing
YieldIdx(S, word, i) ==
  LET c == Cursor(word, i - 1, 1, Len(S)) IN
  IF c[1] > c[2] \/ Skip(word[i]) >= c[2] - c[1] + 1 THEN 0
  ELSE IF Dir(word[i]) = "n" THEN c[1] + Skip(word[i]) ELSE c[2] - Skip(word[i])
Yield(S, word, i, proj) == LET j == YieldIdx(S, word, i) IN IF j = 0 THEN NoItem ELSE Proj(S[j], proj)
Rem(S, word, i) == LET c == Cursor(word, i, 1, Len(S)) IN IF c[1] > c[2] THEN 0 ELSE c[2] - c[1] + 1
\* the entries a clone taken after i steps still has to yield, in its forward order
Rest(S, word, i, proj) ==
  LET c == Cursor(word, i, 1, Len(S)) IN
  IF c[1] > c[2] THEN <<>> ELSE [j \in 1..(c[2] - c[1] + 1) |-> Proj(S[c[1] + j - 1], proj)]

\* the whole expected log of running `word` on an iterator of the given kind/projection over `list`
Run(list, kind, proj, word) ==
  LET S == Order(list, kind) IN
  [yields |-> [i \in 1..Len(word) |-> Yield(S, word, i, proj)],
   hints  |-> [i \in 1..Len(word) + 1 |-> Rem(S, word, i - 1)],
   count  |-> Rem(S, word, Len(word)),
   last   |-> (LET rest == Rest(S, word, Len(word), proj) IN IF rest = <<>> THEN NoItem ELSE rest[Len(rest)]),
   rest   |-> Rest(S, word, Len(word), proj),
   clones |-> [i \in 1..Len(word) + 1 |-> Rest(S, word, i - 1, proj)]]

\* entries whose value was written through a mutable iterator (value + Delta for every yielded entry)
WrittenKeys(S, word) == {LET j == YieldIdx(S, word, i) IN IF j = 0 THEN 0 ELSE S[j].k : i \in 1..Len(word)} \ {0}
AfterWrites(list, kind, word, delta) ==
  LET W == WrittenKeys(Order(list, kind), word) IN
  [i \in 1..Len(list) |-> IF list[i].k \in W THEN Ent(list[i].k, list[i].v + delta) ELSE list[i]]

\* every word of plain steps up to a length, and every word up to a (shorter) length over steps with skips 0..maxskip
\* (for TLC's own exhaustive sanity check of the machine)
Plain == {<<"n", -1>>, <<"b", -1>>}
Words(maxlen) == UNION {[1..m -> Plain] : m \in 0..maxlen}
SkipWords(maxlen, maxskip) == UNION {[1..m -> Plain \cup ({"n", "b"} \X (0..maxskip))] : m \in 0..maxlen}
=============================================================================
