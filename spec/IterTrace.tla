----------------------------- MODULE IterTrace -----------------------------
(***************************************************************************)
(* Trace validation of the real iterators (C14).  Each record is one run   *)
(* of a word of next/next_back calls on one iterator family over one list  *)
(* of a cache in a state reached by `path`.  The list the iterators are    *)
(* judged against is the WITNESS: the content of that list read without    *)
(* any iterator (hook walk of the next pointers + peek), so that C14 is    *)
(* about the iterators only.  TLC also recomputes the SPECIFICATION's list *)
(* by folding the policy specification over `path`; where the two differ   *)
(* the policy is off (C06/C08/C09 report that), the record is counted as   *)
(* POLICY-DRIFT and the iterators are still judged against what the list   *)
(* really holds.  Everything the real iterator did is compared with        *)
(* Iter!Run on that list.                                                   *)
(*   kind "raw": P1 = capacity;  "2q": P1 = size, P2 = quota, P3 = ghost;  *)
(*   "arc": P1 = size.                                                      *)
(***************************************************************************)
EXTENDS Iter, Json, IOUtils, TLC
CONSTANTS Kind, P1, P2, P3
RW == INSTANCE RawLRU
TQ == INSTANCE TwoQueue WITH Size <- P1, Q <- P2, G <- P3
AR == INSTANCE Adaptive WITH Size <- P1
Rec == ndJsonDeserialize(IOEnv.TRACE)
VARIABLES l
RECURSIVE FoldRaw(_, _), FoldQ(_, _), FoldA(_, _)
FoldRaw(path, i) == IF i = 0 THEN RW!RInit(P1) ELSE RW!RApply(path[i], FoldRaw(path, i - 1)).st
FoldQ(path, i) == IF i = 0 THEN TQ!QInit ELSE TQ!QApply(path[i], FoldQ(path, i - 1)).st
FoldA(path, i) == IF i = 0 THEN AR!AInit ELSE AR!AApply(path[i], FoldA(path, i - 1)).st
\* the specification's list `name` after `path`
ListOf(path, name) ==
  CASE Kind = "raw" -> FoldRaw(path, Len(path)).list
    [] Kind = "2q" -> LET s == FoldQ(path, Len(path)) IN
                      (CASE name = "recent" -> s.recent [] name = "frequent" -> s.frequent [] name = "ghost" -> s.ghost)
    [] Kind = "arc" -> LET a == FoldA(path, Len(path)) IN
                      (CASE name = "recent" -> a.t1 [] name = "frequent" -> a.t2 [] name = "recent_evict" -> a.b1 [] name = "frequent_evict" -> a.b2)
ToPairs(seq) == [i \in 1..Len(seq) |-> IF Len(seq[i]) = 0 THEN NoItem ELSE <<seq[i][1], seq[i][2]>>]
ToPairs2(seqs) == [i \in 1..Len(seqs) |-> ToPairs(seqs[i])]
Word(w) == [i \in 1..Len(w) |-> <<w[i][1], w[i][2]>>]
Delta == 100
Check(r) ==
  LET list == [i \in 1..Len(r.witness) |-> Ent(r.witness[i][1], r.witness[i][2])]
      e == Run(list, r.kind, r.proj, Word(r.word))
  IN \* (long random paths are not folded: the drift note is informative only)
     /\ (IF Len(r.path) <= 40 /\ list # ListOf(r.path, r.list) THEN PrintT(<<"POLICY-DRIFT", r.list, ToJson(r.path)>>) ELSE TRUE)
     /\ ~r.panic
     /\ ToPairs(r.yields) = e.yields
     /\ r.hints = e.hints                       \* size_hint (lower = upper) and ExactSizeIterator::len, after every step
     \* how the rest is consumed: count(), last(), fold (front to back), rfold (back to front)
     /\ (CASE r.fin = "count" -> r.count = e.count
           [] r.fin = "last" -> ToPairs(<<r.fin_items[1]>>)[1] = e.last
           [] r.fin = "fold" -> ToPairs(r.fin_items) = e.rest
           [] r.fin = "rfold" -> ToPairs(r.fin_items) = Rev(e.rest))
     /\ r.len = Len(list) /\ r.hint_consistent    \* exactly len() items; size_hint lower = upper = ExactSizeIterator::len
     /\ (IF r.mutable THEN TRUE ELSE ToPairs2(r.clones) = e.clones)    \* clones advance independently
     \* writes through a mutable iterator are visible to later reads and do not affect the order
     /\ (IF r.mutable THEN [i \in 1..Len(r.after) |-> Ent(r.after[i][1], r.after[i][2])] = AfterWrites(list, r.kind, Word(r.word), Delta)
         ELSE [i \in 1..Len(r.after) |-> Ent(r.after[i][1], r.after[i][2])] = list)
TInit == l = 1
Step == l <= Len(Rec) /\ l' = l + 1 /\ Check(Rec[l])
TSpec == TInit /\ [][Step]_l
Accepted ==
  LET d == TLCGet("stats").diameter IN
  IF d - 1 = Len(Rec) THEN TRUE
  ELSE PrintT(<<"REJECT", d, ToJson(Rec[d])>>) /\ FALSE
=============================================================================
