--------------------------- MODULE SegmentedTrace ---------------------------
EXTENDS Segmented, Props, Json, IOUtils
Rec == ndJsonDeserialize(IOEnv.TRACE)
PROP == IOEnv.PROP
VARIABLES l, base, cur
tvars == <<l, base, cur>>

(* Trace validation of the real SegmentedCache against Segmented.tla; see TraceCore.tla. *)
StOf(o) == [prob |-> o.prob, prot |-> o.prot]
FullState(o) == <<StOf(o), o.cap, o.prob_cap, o.prot_cap>>
OV(o) == ObsView(<<o.prob, o.prot>>, SRes, SBounds, A + B, o)
TokOf(o) == <<o.tok.prob, o.tok.prot>>
SpecOps == {"put", "put_protected", "get", "get_mut", "peek", "peek_mut", "contains", "remove", "purge",
            "len", "cap", "is_empty", "remove_lru_from", "peek_end", "peek_end_mut", "seg_len", "seg_cap"}
ReadOnlyOps == SReadOnly \cup {"peek_mut", "peek_end_mut", "debug"}
AccessorsOK(o) ==
  /\ o.prob_len = Len(o.prob) /\ o.prot_len = Len(o.prot) /\ o.prob_cap = A /\ o.prot_cap = B
\* C07: the implementation's step is the specification's step
PolicyStep(pre, ev) ==
  IF ev.panic THEN FALSE
  ELSE IF ~SWellFormed(StOf(pre)) THEN TRUE
  \* clone mode (C16 traces judged under the policy property): the copy is in the same abstract state and follows the policy
  ELSE IF ev.op = "clone" THEN ("unsupported" \in DOMAIN ev) \/ (StOf(ev.obs) = StOf(pre) /\ StOf(ev.obs2) = StOf(pre))
  ELSE IF ev.op = "both"
       THEN LET e2 == [ev EXCEPT !.op = ev.op2] IN
            IF ev.op2 \in SpecOps
            THEN LET x == SApply(e2, StOf(pre)) IN x.st = StOf(ev.obs) /\ x.st = StOf(ev.obs2) /\ x.ret = ev.ret /\ x.ret = ev.ret2
            ELSE StOf(ev.obs) = StOf(pre) /\ StOf(ev.obs2) = StOf(pre)
  ELSE IF ev.op \in {"clone_only", "clone_dropped"} THEN StOf(ev.obs) = StOf(pre)
  ELSE IF ev.op \in SpecOps
       THEN LET x == SApply(ev, StOf(pre)) IN x.st = StOf(ev.obs) /\ x.ret = ev.ret
       ELSE StOf(ev.obs) = StOf(pre)

\* C16: a clone is observationally identical at the moment of cloning (capacity, every partition in
\* order with values, estimator state), behaves identically afterwards, and is independent
Same2(o1, o2) == /\ FullState(o2) = FullState(o1) /\ o2.contains = o1.contains /\ o2.peek = o1.peek
                 /\ o2.len = o1.len /\ o2.empty = o1.empty
C16Step(pre, ev) ==
  CASE ev.op = "clone" -> IF ev.panic THEN FALSE
                          ELSE IF "unsupported" \in DOMAIN ev THEN TRUE
                          ELSE Same2(ev.obs, ev.obs2) /\ FullState(ev.obs) = FullState(pre)
    [] ev.op = "both" -> ev.ret2 = ev.ret /\ Same2(ev.obs, ev.obs2)
                         /\ (IF "cb2" \in DOMAIN ev /\ "cb" \in DOMAIN ev THEN ev.cb2 = ev.cb ELSE TRUE)   \* the clone notifies like the original
    [] ev.op \in {"clone_only", "clone_dropped"} -> FullState(ev.obs) = FullState(pre)
    [] OTHER -> TRUE

\* predicates shared by all cache types, selected by PROP; policy property id: C07
Generic(pre, ev) ==
  \* (IF .. THEN TRUE ELSE ..: inside an action TLC evaluates BOTH sides of a disjunction)
  IF ev.op = "drop" /\ PROP \notin {"C04", "C18"} THEN TRUE
  \* a call that panicked is judged by C05 / C18; for the memory properties what the execution monitor saw DURING the call still
  \* counts (a key hashed out of an uninitialised or dead node, a double drop), whether or not the call returned
  ELSE IF ev.panic /\ PROP \notin {"C05", "C16", "C18", "C07"} THEN (IF PROP \in {"C03", "C04"} THEN ev.anomalies = <<>> ELSE TRUE)
  ELSE CASE PROP = "C01" -> \* (in clone mode the copy is a cache too: its bounds and accessors are judged as well)
                             (IF "len" \in DOMAIN ev.obs THEN C01View(OV(ev.obs)) /\ AccessorsOK(ev.obs) ELSE TRUE)
                             /\ (IF "obs2" \in DOMAIN ev /\ "len" \in DOMAIN ev.obs2 THEN C01View(OV(ev.obs2)) /\ AccessorsOK(ev.obs2) ELSE TRUE)
         [] PROP = "C02" -> C02Step(OV(pre), ev, OV(ev.obs))
         [] PROP = "C03" -> C03Audit(ev.obs) /\ ev.anomalies = <<>>
         [] PROP = "C04" -> C04Event(TokOf(pre), ev, IF ev.op = "drop" THEN <<>> ELSE TokOf(ev.obs))
         [] PROP = "C05" -> ~ev.panic
         [] PROP = "C16" -> C16Step(pre, ev)
         [] PROP = "C18" -> LET hasObs == "len" \in DOMAIN ev.obs IN
                            C18Event(ev, hasObs, IF hasObs THEN TokOf(ev.obs) ELSE <<>>, IF hasObs THEN ev.obs.audit ELSE <<>>)
         [] PROP = "C12" -> IF IsPutResult(EvPR(ev))
                            THEN C12Put(OV(pre), ev.k, ev.v, EvPR(ev), OV(ev.obs), FALSE) ELSE TRUE
         [] PROP = "C13" -> /\ ev.obs.stable
                            /\ (IF ev.op \in ReadOnlyOps /\ ~HasW(ev) THEN FullState(ev.obs) = FullState(pre) ELSE TRUE)
         [] PROP = "C07" -> PolicyStep(pre, ev)
JumpOK(ev) ==
  CASE PROP = "C03" -> C03Audit(ev.obs) /\ ev.anomalies = <<>>
    [] PROP = "C01" -> C01View(OV(ev.obs)) /\ AccessorsOK(ev.obs)
    [] PROP = "C04" -> C04Distinct(TokOf(ev.obs)) /\ ev.anomalies = <<>>
    [] OTHER -> TRUE
Check(pre, ev) == Generic(pre, ev)

TInit == l = 1 /\ base = [none |-> TRUE] /\ cur = [none |-> TRUE]
Step ==
  /\ l <= Len(Rec)
  /\ l' = l + 1
  /\ LET ev == Rec[l] IN
     IF ev.op = "jump"
     THEN /\ base' = ev.obs /\ cur' = ev.obs
          /\ JumpOK(ev)
     ELSE LET pre == IF ev.chain THEN cur ELSE base IN
          /\ Check(pre, ev)
          /\ base' = base
          /\ cur' = IF ev.panic \/ ev.op = "drop" THEN pre ELSE ev.obs
TSpec == TInit /\ [][Step]_tvars
Accepted ==
  LET d == TLCGet("stats").diameter IN
  IF d - 1 = Len(Rec) THEN TRUE
  ELSE PrintT(<<"REJECT", d, ToJson(Rec[d])>>) /\ FALSE
=============================================================================
