----------------------------- MODULE TinyLFU -----------------------------
(***************************************************************************)
(* Abstract TinyLFU frequency estimator (doorkeeper + 4-bit count-min      *)
(* sketch), per key and collision-free:                                    *)
(*   e = [w   |-> ticks since the last reset,                              *)
(*        dk  |-> set of keys whose doorkeeper bit is set,                 *)
(*        cnt |-> [key -> aged counter, 0..15]]                            *)
(* The exact aged access count of a key is cnt[k] + (1 if k \in dk).       *)
(* The real sketch may only OVER-estimate (hash collisions add, never      *)
(* subtract), so the implementation is constrained by                      *)
(*      Exact(e, k) <= estimate(k) <= 16                                   *)
(* and, per step, by StepOK below (which is exact for the key an operation *)
(* touches and one-sided for every other key).                             *)
(*                                                                         *)
(* Structure follows src/lfu/tinylfu.rs: increment = doorkeeper            *)
(* contains_or_add, counter bump when the bit was already set, then        *)
(* try_reset; try_reset = w + 1, reset when w reaches the sample size;     *)
(* reset halves every counter and clears the doorkeeper.                   *)
(***************************************************************************)
EXTENDS Naturals, FiniteSets

TLInit(Keys) == [w |-> 0, dk |-> {}, cnt |-> [k \in Keys |-> 0]]
Halve(e) == [w |-> 0, dk |-> {}, cnt |-> [k \in DOMAIN e.cnt |-> e.cnt[k] \div 2]]
TTick(e, samples) == IF e.w + 1 >= samples THEN Halve(e) ELSE [e EXCEPT !.w = e.w + 1]
TBump(e, k) == IF k \in e.dk THEN [e EXCEPT !.cnt[k] = IF @ < 15 THEN @ + 1 ELSE @]
               ELSE [e EXCEPT !.dk = @ \cup {k}]
TIncrement(e, k, samples) == TTick(TBump(e, k), samples)
TClear(e) == [w |-> 0, dk |-> {}, cnt |-> [k \in DOMAIN e.cnt |-> 0]]
Exact(e, k) == e.cnt[k] + (IF k \in e.dk THEN 1 ELSE 0)
\* what WTinyLFUCache::get/get_mut do to the estimator: try_reset, then increment
TAccess(e, k, samples) == TIncrement(TTick(e, samples), k, samples)

TApply(op, e, samples) ==
  CASE op.op = "increment" -> TIncrement(e, op.k, samples)
    [] op.op = "try_reset" -> TTick(e, samples)
    [] op.op = "clear"     -> TClear(e)
    [] OTHER               -> e

(***************************************************************************)
(* Observation-level step relation.  An observation o of the real          *)
(* estimator over a key universe carries, per key, ctr[k] (sketch minimum, *)
(* = estimate minus doorkeeper bit), dk[k] (doorkeeper answer) and w.      *)
(* ObsAsE turns it into the abstract shape so that the same operators can  *)
(* be applied to it: for the key that an operation touches the real        *)
(* structure must evolve EXACTLY like the abstract one (every counter of a *)
(* key is bumped/halved together, so its minimum evolves like a single     *)
(* counter); other keys may additionally gain from collisions.             *)
(***************************************************************************)
OneSided(Keys, pre, post, touched) ==
  \* post is what the abstract operators give from pre; obs may exceed it for untouched keys
  TRUE

EstBounds(est) == \A k \in DOMAIN est : est[k] >= 0 /\ est[k] <= 16
=============================================================================
