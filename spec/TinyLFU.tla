----------------------------- MODULE TinyLFU -----------------------------
(***************************************************************************)
(* Abstract TinyLFU frequency estimator (doorkeeper + 4-bit count-min      *)
(* sketch), per key and collision-free:                                    *)
(*   e = [w   |-> ticks since the last reset,                              *)
(*        dk  |-> set of keys whose doorkeeper bit is set,                 *)
(*        cnt |-> [key -> aged counter, 0..15]]                            *)
(* The exact aged access count of a key is cnt[k] + (1 if k \in dk).       *)
(* The real sketch may only OVER-estimate (hash collisions add, never      *)
(* subtract), so the implementation is constrained by                      *)
(*      Exact(e, k) <= estimate(k) <= 16                                   *)
(* and, per step, by StepOK below (which is exact for the key an operation *)
(* touches and one-sided for every other key).                             *)
(*                                                                         *)
(* Structure follows src/lfu/tinylfu.rs: increment = doorkeeper            *)
(* contains_or_add, counter bump when the bit was already set, then        *)
(* try_reset; try_reset = w + 1, reset when w reaches the sample size;     *)
(* reset halves every counter and clears the doorkeeper.                   *)
(***************************************************************************)
EXTENDS Naturals, FiniteSets, Sequences

TLInit(Keys) == [w |-> 0, dk |-> {}, cnt |-> [k \in Keys |-> 0]]
Halve(e) == [w |-> 0, dk |-> {}, cnt |-> [k \in DOMAIN e.cnt |-> e.cnt[k] \div 2]]
TTick(e, samples) == IF e.w + 1 >= samples THEN Halve(e) ELSE [e EXCEPT !.w = e.w + 1]
TBump(e, k) == IF k \in e.dk THEN [e EXCEPT !.cnt[k] = IF @ < 15 THEN @ + 1 ELSE @]
               ELSE [e EXCEPT !.dk = @ \cup {k}]
TIncrement(e, k, samples) == TTick(TBump(e, k), samples)
TClear(e) == [w |-> 0, dk |-> {}, cnt |-> [k \in DOMAIN e.cnt |-> 0]]
Exact(e, k) == e.cnt[k] + (IF k \in e.dk THEN 1 ELSE 0)
\* what WTinyLFUCache::get/get_mut do to the estimator: try_reset, then increment
TAccess(e, k, samples) == TIncrement(TTick(e, samples), k, samples)

RECURSIVE TIncrementAll(_, _, _)
TIncrementAll(e, ks, samples) ==
  IF Len(ks) = 0 THEN e ELSE TIncrementAll(TIncrement(e, ks[1], samples), Tail(ks), samples)
TApply(op, e, samples) ==
  CASE op.op = "increment" -> TIncrement(e, op.k, samples)
    [] op.op = "increment_keys" -> TIncrementAll(e, op.ks, samples)    \* increment_keys / increment_hashed_keys
    [] op.op = "try_reset" -> TTick(e, samples)
    [] op.op = "clear"     -> TClear(e)
    [] OTHER               -> e

(***************************************************************************)
(* Observation-level step relation (used by TinyLFUTrace and, for the      *)
(* estimator embedded in W-TinyLFU, by WTinyLFUTrace).                      *)
(* An observation o of the real estimator over the key universe 1..n       *)
(* carries est[k] (estimate), dk[k] (doorkeeper answer), w and samples.    *)
(* Ctr(o,k) = est[k] - dk[k] is the sketch minimum of k.                    *)
(* For the key an operation touches the real structure must evolve EXACTLY *)
(* like the abstract one (all four counters of a key are bumped / halved   *)
(* together, so their minimum evolves like a single saturating counter);   *)
(* an untouched key may additionally gain from a collision: its minimum    *)
(* rises by at most one per increment and its doorkeeper answer may turn   *)
(* true (false positive), never false, between resets.                     *)
(***************************************************************************)
OCtr(o, k) == o.est[k] - (IF o.dk[k] THEN 1 ELSE 0)
OKeys(o) == 1..Len(o.est)
Sat(c) == IF c < 15 THEN c + 1 ELSE c
\* one tick (try_reset) on the observation of key k: <<ctr, dk, w, reset?>>
OTick(c, d, w, samples) == IF w + 1 >= samples THEN <<c \div 2, FALSE, 0, TRUE>> ELSE <<c, d, w + 1, FALSE>>
\* increment of key k seen from key k itself
OIncSelf(c, d, w, samples) ==
  LET c1 == IF d THEN Sat(c) ELSE c IN OTick(c1, TRUE, w, samples)
\* increment of ANOTHER key seen from key x: may or may not collide
OIncOther(c, d, w, samples) ==
  {OTick(cc, dd, w, samples) : cc \in {c, Sat(c)}, dd \in {d, TRUE}}
\* post observation agrees with one abstract operation applied to the pre observation
ObsIncrement(pre, post, k) ==
  /\ \A x \in OKeys(pre) :
       LET got == <<OCtr(post, x), post.dk[x], post.w>> IN
       IF x = k
       THEN LET e == OIncSelf(OCtr(pre, x), pre.dk[x], pre.w, pre.samples) IN got = <<e[1], e[2], e[3]>>
       ELSE \E e \in OIncOther(OCtr(pre, x), pre.dk[x], pre.w, pre.samples) : got = <<e[1], e[2], e[3]>>
\* several increments in one call (increment_keys): per key, the set of possible <<ctr, dk, w>>
\* triples is pushed through the increments one by one
RECURSIVE ObsFold(_, _, _, _)
ObsFold(S, x, ks, samples) ==
  IF Len(ks) = 0 THEN S
  ELSE LET S1 == IF ks[1] = x
                 THEN {LET e == OIncSelf(t[1], t[2], t[3], samples) IN <<e[1], e[2], e[3]>> : t \in S}
                 ELSE UNION {{<<e[1], e[2], e[3]>> : e \in OIncOther(t[1], t[2], t[3], samples)} : t \in S}
       IN ObsFold(S1, x, Tail(ks), samples)
ObsIncrementKeys(pre, post, ks) ==
  \A x \in OKeys(pre) :
     <<OCtr(post, x), post.dk[x], post.w>> \in ObsFold({<<OCtr(pre, x), pre.dk[x], pre.w>>}, x, ks, pre.samples)
ObsTryReset(pre, post) ==
  \A x \in OKeys(pre) :
     LET e == OTick(OCtr(pre, x), pre.dk[x], pre.w, pre.samples) IN
     <<OCtr(post, x), post.dk[x], post.w>> = <<e[1], e[2], e[3]>>
ObsClear(post) == post.w = 0 /\ \A x \in OKeys(post) : post.est[x] = 0 /\ ~post.dk[x]
ObsUnchanged(pre, post) == post.est = pre.est /\ post.dk = pre.dk /\ post.w = pre.w

EstBounds(est) == \A k \in 1..Len(est) : est[k] >= 0 /\ est[k] <= 16
=============================================================================
