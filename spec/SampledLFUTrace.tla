--------------------------- MODULE SampledLFUTrace ---------------------------
(***************************************************************************)
(* Trace validation of the real SampledLFU against SampledLFU.tla (C20).   *)
(* Observation o: room (= room_left(0)), max (= get_max_cost()), samples,  *)
(* and all (= fill_sample(empty) of a tracker whose sample size covers the *)
(* whole key universe, i.e. the complete tracked map as [k, c] pairs; when *)
(* the configured sample size is smaller the map is carried by the monitor *)
(* variable through chained histories instead).                            *)
(* fill events carry inp/out as sequences of [k, c].                       *)
(***************************************************************************)
EXTENDS SampledLFU, Json, IOUtils, TLC
Rec == ndJsonDeserialize(IOEnv.TRACE)
PROP == IOEnv.PROP
VARIABLES l, base, cur
tvars == <<l, base, cur>>
Pairs(seq) == [i \in 1..Len(seq) |-> <<seq[i][1], seq[i][2]>>]
PairSet(seq) == {<<seq[i][1], seq[i][2]>> : i \in 1..Len(seq)}
\* abstract state carried by a record: tracked map + max cost
StOf(r) == [costs |-> PairSet(r.obs.all), max |-> r.obs.max]
ViewOK(o) ==
  LET s == [costs |-> PairSet(o.all), max |-> o.max] IN
  /\ Cardinality({x[1] : x \in s.costs}) = Len(o.all)       \* distinct keys
  /\ o.room = LRoom(s, 0)                                   \* room_left is exact
Check(pre, ev) ==
  IF PROP = "C05" THEN ~ev.panic
  ELSE IF ev.panic THEN FALSE          \* C20 specifies the result of every operation: not returning one is a mismatch
  ELSE IF ev.op = "fill_sample"
       THEN /\ FillOK(pre, ev.samples, Pairs(ev.inp), Pairs(ev.out))
            /\ StOf(ev) = pre /\ ViewOK(ev.obs)
       ELSE LET x == LApply(ev, pre) IN
            /\ StOf(ev) = x.st /\ ev.ret = x.ret /\ ViewOK(ev.obs)
TInit == l = 1 /\ base = [none |-> TRUE] /\ cur = [none |-> TRUE]
Step ==
  /\ l <= Len(Rec)
  /\ l' = l + 1
  /\ LET ev == Rec[l] IN
     IF ev.op = "jump"
     THEN base' = StOf(ev) /\ cur' = StOf(ev) /\ (IF PROP = "C20" THEN ViewOK(ev.obs) ELSE TRUE)
     ELSE LET pre == IF ev.chain THEN cur ELSE base IN
          /\ Check(pre, ev)
          /\ base' = base
          /\ cur' = IF ev.panic THEN pre ELSE StOf(ev)
TSpec == TInit /\ [][Step]_tvars
Accepted ==
  LET d == TLCGet("stats").diameter IN
  IF d - 1 = Len(Rec) THEN TRUE
  ELSE PrintT(<<"REJECT", d, ToJson(Rec[d])>>) /\ FALSE
=============================================================================
