----------------------------- MODULE TwoQueue -----------------------------
(***************************************************************************)
(* TwoQueueCache (2Q).  State: [recent, frequent, ghost].                  *)
(* Constants: Size (resident capacity), Q = floor(Size * recent_ratio)     *)
(* (recent quota), G = floor(Size * ghost_ratio) >= 1 (ghost capacity).    *)
(* Deviations from textbook 2Q that the implementation makes and the       *)
(* specification follows: ghost entries KEEP their values (a put on a      *)
(* ghost key returns Update(old ghost value)); remove() also removes a     *)
(* ghost; on a ghost hit in a full cache the victim is pushed to the ghost *)
(* list BEFORE the hit key is taken out of it (so the ghost list may push  *)
(* out one entry - possibly the hit key itself).                           *)
(***************************************************************************)
EXTENDS LRUList
CONSTANTS Size, Q, G

QInit == [recent |-> <<>>, frequent |-> <<>>, ghost |-> <<>>]
Q2(st, ret) == [st |-> st, ret |-> ret]
QWriteIf(l, k, w) == IF w = 0 THEN l ELSE SetVal(l, k, w)
Resident(s) == Len(s.recent) + Len(s.frequent)

\* Victim choice with the fallback C08 requires: the preferred queue if it is
\* non-empty, otherwise whichever queue is non-empty.
TakeVictim(s, preferRecent) ==
  IF (preferRecent /\ Len(s.recent) > 0) \/ Len(s.frequent) = 0
  THEN [s |-> [s EXCEPT !.recent = DropLRU(s.recent)], e |-> LRUOf(s.recent)]
  ELSE [s |-> [s EXCEPT !.frequent = DropLRU(s.frequent)], e |-> LRUOf(s.frequent)]

QPut(s, k, v) ==
  IF Has(s.frequent, k) THEN
    Q2([s EXCEPT !.frequent = PushMRU(Without(s.frequent, k), Ent(k, v))], RUpdate(ValOf(s.frequent, k)))
  ELSE IF Has(s.recent, k) THEN
    Q2([s EXCEPT !.recent = Without(s.recent, k), !.frequent = PushMRU(s.frequent, Ent(k, v))],
       RUpdate(ValOf(s.recent, k)))
  ELSE IF Has(s.ghost, k) THEN
    LET old == ValOf(s.ghost, k) IN
    IF Resident(s) >= Size THEN
      LET tv == TakeVictim(s, Len(s.recent) > Q)      \* strictly over quota on a ghost hit
          pg == PushCap(tv.s.ghost, tv.e, G)          \* victim becomes a ghost first
          dropped == pg.out                            \* <<>> or <<ghost LRU>>
          selfDropped == dropped # <<>> /\ dropped[1].k = k
          g2 == Without(pg.l, k)
          s2 == [tv.s EXCEPT !.ghost = g2, !.frequent = PushMRU(tv.s.frequent, Ent(k, v))]
      IN Q2(s2, IF dropped = <<>> \/ selfDropped THEN RUpdate(old)
                ELSE REvictedAndUpdate(dropped[1], old))
    ELSE
      Q2([s EXCEPT !.ghost = Without(s.ghost, k), !.frequent = PushMRU(s.frequent, Ent(k, v))], RUpdate(old))
  ELSE IF Resident(s) < Size THEN
    Q2([s EXCEPT !.recent = PushMRU(s.recent, Ent(k, v))], RPut)
  ELSE
    LET tv == TakeVictim(s, Len(s.recent) >= Q)       \* at quota also counts for a brand-new key
        pg == PushCap(tv.s.ghost, tv.e, G)
    IN Q2([tv.s EXCEPT !.recent = PushMRU(tv.s.recent, Ent(k, v)), !.ghost = pg.l],
          IF pg.out = <<>> THEN RPut ELSE REvicted(pg.out[1]))

\* The other admissible order on a ghost hit in a full cache (the statement is silent on it, DESIGN 3.3 ii): the hit
\* key leaves the ghost list FIRST, so the victim always finds room there and nothing is pushed out of the ghost list.
QPutAlt(s, k, v) ==
  IF ~Has(s.frequent, k) /\ ~Has(s.recent, k) /\ Has(s.ghost, k) /\ Resident(s) >= Size THEN
    LET old == ValOf(s.ghost, k)
        s1 == [s EXCEPT !.ghost = Without(s.ghost, k)]
        tv == TakeVictim(s1, Len(s1.recent) > Q)
        pg == PushCap(tv.s.ghost, tv.e, G)
    IN Q2([tv.s EXCEPT !.ghost = pg.l, !.frequent = PushMRU(tv.s.frequent, Ent(k, v))],
          IF pg.out = <<>> THEN RUpdate(old) ELSE REvictedAndUpdate(pg.out[1], old))
  ELSE QPut(s, k, v)

QGet(s, k, w) ==
  IF Has(s.frequent, k) THEN
    Q2([s EXCEPT !.frequent = QWriteIf(Touch(s.frequent, k), k, w)], RSome(ValOf(s.frequent, k)))
  ELSE IF Has(s.recent, k) THEN
    LET old == ValOf(s.recent, k)
        nv  == IF w = 0 THEN old ELSE w
    IN Q2([s EXCEPT !.recent = Without(s.recent, k), !.frequent = PushMRU(s.frequent, Ent(k, nv))], RSome(old))
  ELSE Q2(s, RNone)

QPeek(s, k, w) ==
  IF Has(s.frequent, k) THEN Q2([s EXCEPT !.frequent = QWriteIf(s.frequent, k, w)], RSome(ValOf(s.frequent, k)))
  ELSE IF Has(s.recent, k) THEN Q2([s EXCEPT !.recent = QWriteIf(s.recent, k, w)], RSome(ValOf(s.recent, k)))
  ELSE Q2(s, RNone)

QRemove(s, k) ==
  IF Has(s.frequent, k) THEN Q2([s EXCEPT !.frequent = Without(s.frequent, k)], RSome(ValOf(s.frequent, k)))
  ELSE IF Has(s.recent, k) THEN Q2([s EXCEPT !.recent = Without(s.recent, k)], RSome(ValOf(s.recent, k)))
  ELSE IF Has(s.ghost, k) THEN Q2([s EXCEPT !.ghost = Without(s.ghost, k)], RSome(ValOf(s.ghost, k)))
  ELSE Q2(s, RNone)

QHas(s, k) == Has(s.frequent, k) \/ Has(s.recent, k)

QApply(op, s) ==
  CASE op.op = "put"      -> QPut(s, op.k, op.v)
    [] op.op = "get"      -> QGet(s, op.k, 0)
    [] op.op = "get_mut"  -> QGet(s, op.k, op.w)
    [] op.op = "peek"     -> QPeek(s, op.k, 0)
    [] op.op = "peek_mut" -> QPeek(s, op.k, op.w)
    [] op.op = "contains" -> Q2(s, RBool(QHas(s, op.k)))
    [] op.op = "remove"   -> QRemove(s, op.k)
    [] op.op = "purge"    -> Q2(QInit, RUnit)
    [] op.op = "len"      -> Q2(s, RInt(Resident(s)))
    [] op.op = "cap"      -> Q2(s, RInt(Size))
    [] op.op = "is_empty" -> Q2(s, RBool(Resident(s) + Len(s.ghost) = 0))
    [] op.op = "ro"       -> Q2(s, RUnit)

QOps(Keys, Vals) ==
  LET W == Vals \cup {0} IN
       [op : {"put"}, k : Keys, v : Vals]
  \cup [op : {"get", "remove"}, k : Keys]
  \cup [op : {"get_mut", "peek_mut"}, k : Keys, w : W]
  \cup [op : {"purge", "ro"}]

QWellFormed(s) ==
  /\ Resident(s) <= Size /\ Len(s.ghost) <= G
  /\ NoDupKeys(s.recent \o s.frequent \o s.ghost)
\* normalised-view ingredients (see Props.tla)
QParts(s) == <<s.recent, s.frequent, s.ghost>>
QRes == {1, 2}
QBounds == <<Size, Size, G>>
QReadOnly == {"peek", "contains", "len", "cap", "is_empty", "ro"}
=============================================================================
