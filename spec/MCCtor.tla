------------------------------ MODULE MCCtor ------------------------------
(* TLC enumerates the constructor grid of Ctor.tla (each call is a one-step behaviour) and *)
(* prints it for the harness; it also checks that the table is total and never accepts a   *)
(* panic, and that every invalid argument has a matching error.                            *)
EXTENDS Ctor, TLC, Json
VARIABLES done
Init == done = FALSE
Next == /\ ~done /\ done' = TRUE
        /\ \A c \in Grid : /\ Accept(c) # {} /\ "Panic" \notin Accept(c)
                           /\ PrintT(<<"CTOR", ToJson(c)>>)
Spec == Init /\ [][Next]_done
=============================================================================
