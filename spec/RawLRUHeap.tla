---------------------------- MODULE RawLRUHeap ----------------------------
(***************************************************************************)
(* Pointer-level model of RawLRU (src/lru/raw.rs): nodes with prev/next,   *)
(* the two sentinels, the hash index (KeyRef -> node), allocation and      *)
(* freeing of nodes, and the ownership status of every key/value object.   *)
(* Each public operation is a sequence of MICRO-STEPS in the statement     *)
(* order of the unsafe code; at every call into USER CODE (Hash/Eq of a    *)
(* key during an index operation, the eviction callback) the step may      *)
(* instead PANIC: the operation is abandoned and exactly the locals that   *)
(* Rust would drop while unwinding are dropped.  Later operations then run *)
(* on whatever structure the panic left behind.                            *)
(*                                                                         *)
(* Checked by TLC (MCRawLRUHeap):                                          *)
(*   Safe      no use of a freed node, no read of an uninitialised field,  *)
(*             no object dropped twice, no node freed twice - also after   *)
(*             any number (<= MaxPanics) of panics (C03, C18, C04);        *)
(*   WF        after every completed operation of a panic-free history the *)
(*             chain between the sentinels, walked both ways, is exactly   *)
(*             the set of index entries, each index key points at its own  *)
(*             node (C03's structural statement);                          *)
(*   Refines   in a panic-free history the list read off the heap is the   *)
(*             list of RawLRU.tla (same keys, same order, same value       *)
(*             objects), and every object is accounted for exactly once.   *)
(*                                                                         *)
(* Objects: every put mints a key token and a value token; tok[t] records  *)
(* the model key of a key token and the status of the object               *)
(* ("live" / "dropped" / "returned" to the caller).                        *)
(***************************************************************************)
EXTENDS Naturals, Sequences, FiniteSets, TLC
CONSTANTS Keys,       \* model keys
          Cap,        \* capacity (>= 1)
          MaxPuts,    \* bound on the number of puts (each mints 2 tokens and at most 1 node)
          MaxPanics   \* bound on the number of injected panics

H == 0                              \* head sentinel
T == MaxPuts + 1                    \* tail sentinel
NodeIds == 1..MaxPuts
Ptrs == 0..(MaxPuts + 1)
Toks == 1..(2 * MaxPuts)

VARIABLES heap,     \* [Ptrs -> [st, key, val, prev, next]]; st \in {"unalloc","live","freed","sentinel"}
          index,    \* set of [k, kp, n]: entry stored under model key k, key pointer into node kp, value = node n
          tok,      \* [Toks -> [k, st]]; st \in {"unborn","live","dropped","returned"}
          nputs,    \* puts started so far
          pc,       \* Idle or the record of the micro-step to execute next
          bad,      \* set of hazards met so far
          panics,   \* panics injected so far
          dropped   \* TRUE once the cache itself was dropped
vars == <<heap, index, tok, nputs, pc, bad, panics, dropped>>

Idle == [op |-> "idle", step |-> "idle"]
Node(st, key, val, p, n) == [st |-> st, key |-> key, val |-> val, prev |-> p, next |-> n]
Init ==
  /\ heap = [i \in Ptrs |-> IF i = H THEN Node("sentinel", 0, 0, H, T)
                            ELSE IF i = T THEN Node("sentinel", 0, 0, H, T)
                            ELSE Node("unalloc", 0, 0, 0, 0)]
  /\ index = {} /\ tok = [t \in Toks |-> [k |-> 0, st |-> "unborn"]]
  /\ nputs = 0 /\ pc = Idle /\ bad = {} /\ panics = 0 /\ dropped = FALSE

(* ------------------------------ helpers ------------------------------- *)
Usable(h, n) == h[n].st \in {"live", "sentinel"}
\* hazards of dereferencing node n / reading its key
DerefBad(h, n) == IF Usable(h, n) THEN {} ELSE {"use-after-free"}
KeyReadBad(h, n) == DerefBad(h, n) \cup (IF h[n].st = "sentinel" \/ h[n].key = 0 THEN {"uninit-read"} ELSE {})
KeyValOf(h, n) == IF h[n].key = 0 THEN 0 ELSE tok[h[n].key].k
\* hashbrown lookup of model key k: entries in bucket k whose stored key pointer compares equal
Matches(h, k) == {e \in index : e.k = k /\ KeyValOf(h, e.kp) = k}
LookupBad(h, k) == UNION {KeyReadBad(h, e.kp) : e \in {x \in index : x.k = k}}
\* pointer surgery (src/lru/raw.rs detach / attach), returning the new heap
Detach(h, n) ==
  LET p == h[n].prev  x == h[n].next IN
  [h EXCEPT ![p].next = x, ![x].prev = p]
DetachBad(h, n) == DerefBad(h, n) \cup DerefBad(h, h[n].prev) \cup DerefBad(h, h[n].next)
Attach(h, n) ==
  LET first == h[H].next
      h1 == [h EXCEPT ![n].next = first, ![n].prev = H, ![H].next = n]
  IN [h1 EXCEPT ![first].prev = n]
AttachBad(h, n) == DerefBad(h, n) \cup DerefBad(h, h[H].next)
\* dropping / returning objects
DropToks(tk, S) == [t \in Toks |-> IF t \in S THEN [tk[t] EXCEPT !.st = "dropped"] ELSE tk[t]]
DropBad(tk, S) == IF \E t \in S : tk[t].st # "live" THEN {"double-drop"} ELSE {}
ReturnToks(tk, S) == [t \in Toks |-> IF t \in S THEN [tk[t] EXCEPT !.st = "returned"] ELSE tk[t]]
MapLen == Cardinality(index)                    \* RawLRU::len() is map.len()

CanPanic == panics < MaxPanics
\* unwinding: drop the listed locals, abandon the operation
Unwind(locals) ==
  /\ tok' = DropToks(tok, locals) /\ bad' = bad \cup DropBad(tok, locals)
  /\ pc' = Idle /\ panics' = panics + 1
  /\ UNCHANGED <<heap, index, nputs, dropped>>

(* ------------------------------- put ---------------------------------- *)
\* put(k, v) where the caller's key object is token tk and the value object is token tv
StartPutT(k, tk, tv) ==
  /\ pc.op = "idle" /\ ~dropped /\ nputs < MaxPuts
  /\ tok' = [tok EXCEPT ![tk] = [k |-> k, st |-> "live"], ![tv] = [k |-> 0, st |-> "live"]]
  /\ pc' = [op |-> "put", step |-> "lookup", k |-> k, tk |-> tk, tv |-> tv]
  /\ nputs' = nputs + 1
  /\ UNCHANGED <<heap, index, bad, panics, dropped>>
StartPut(k) == StartPutT(k, 2 * nputs + 1, 2 * nputs + 2)

\* capturing_put: self.map.get_mut(&KeyRef{k}) - user Hash of the new key, Eq against bucket entries
PutLookup ==
  /\ pc.op = "put" /\ pc.step = "lookup"
  /\ \/ CanPanic /\ Unwind({pc.tk, pc.tv})                      \* k and v are still locals of put
     \/ /\ bad' = bad \cup LookupBad(heap, pc.k)
        /\ LET m == Matches(heap, pc.k) IN
           IF m # {} THEN
             pc' = [pc EXCEPT !.step = "hit"] @@ [n |-> (CHOOSE e \in m : TRUE).n]
           ELSE IF Cap = 0 THEN pc' = [pc EXCEPT !.step = "handback"]
           ELSE IF MapLen = Cap THEN pc' = [pc EXCEPT !.step = "full"]
           ELSE pc' = [pc EXCEPT !.step = "alloc"]
        /\ UNCHANGED <<heap, index, tok, nputs, panics, dropped>>
\* update in place: swap the value, move to front; the caller's key object dies, old value is returned
PutHit ==
  /\ pc.op = "put" /\ pc.step = "hit"
  /\ LET n == pc.n
         old == heap[n].val
         h1 == [heap EXCEPT ![n].val = pc.tv]
         h2 == Attach(Detach(h1, n), n)
     IN /\ heap' = h2
        /\ bad' = bad \cup DerefBad(heap, n) \cup DetachBad(h1, n) \cup AttachBad(Detach(h1, n), n) \cup DropBad(tok, {pc.tk})
        /\ tok' = ReturnToks(DropToks(tok, {pc.tk}), IF old = 0 THEN {} ELSE {old})
  /\ pc' = Idle /\ UNCHANGED <<index, nputs, panics, dropped>>
PutHandback ==
  /\ pc.op = "put" /\ pc.step = "handback"
  /\ tok' = ReturnToks(tok, {pc.tk, pc.tv}) /\ pc' = Idle
  /\ UNCHANGED <<heap, index, nputs, bad, panics, dropped>>
\* replace_or_create_node, cache full: unindex the LRU node (user Hash/Eq of the OLD key) ...
PutFull ==
  /\ pc.op = "put" /\ pc.step = "full"
  /\ LET node == heap[T].prev
         ok == KeyValOf(heap, node)
     IN \/ CanPanic /\ Unwind({pc.tk, pc.tv})
        \/ /\ bad' = bad \cup KeyReadBad(heap, node) \cup LookupBad(heap, ok)
           /\ LET m == {e \in Matches(heap, ok) : TRUE} IN
              IF m = {} THEN
                \* `.unwrap()` on None: a library panic; k and v are dropped by unwinding
                /\ tok' = DropToks(tok, {pc.tk, pc.tv}) /\ pc' = Idle /\ panics' = panics + 1
                /\ index' = index /\ UNCHANGED <<heap, nputs, dropped>>
              ELSE
                /\ index' = index \ {CHOOSE e \in m : TRUE}
                /\ pc' = [pc EXCEPT !.step = "replace"] @@ [node |-> (CHOOSE e \in m : TRUE).n]
                /\ UNCHANGED <<heap, tok, nputs, panics, dropped>>
\* ... then move the old pair out of the node, the new pair in, and unlink it
PutReplace ==
  /\ pc.op = "put" /\ pc.step = "replace"
  /\ LET n == pc.node
         h1 == [heap EXCEPT ![n].key = pc.tk, ![n].val = pc.tv]
     IN /\ heap' = Detach(h1, n)
        /\ bad' = bad \cup DerefBad(heap, n) \cup DetachBad(h1, n)
        /\ pc' = [op |-> "put", step |-> "attach", k |-> pc.k, tk |-> pc.tk, tv |-> pc.tv, node |-> n,
                  rk |-> heap[n].key, rv |-> heap[n].val]
  /\ UNCHANGED <<index, tok, nputs, panics, dropped>>
PutAlloc ==
  /\ pc.op = "put" /\ pc.step = "alloc"
  /\ LET n == CHOOSE i \in NodeIds : heap[i].st = "unalloc" /\ \A j \in NodeIds : j < i => heap[j].st # "unalloc" IN
     /\ heap' = [heap EXCEPT ![n] = Node("live", pc.tk, pc.tv, 0, 0)]
     /\ pc' = [op |-> "put", step |-> "attach", k |-> pc.k, tk |-> pc.tk, tv |-> pc.tv, node |-> n, rk |-> 0, rv |-> 0]
  /\ UNCHANGED <<index, tok, nputs, bad, panics, dropped>>
PutAttach ==
  /\ pc.op = "put" /\ pc.step = "attach"
  /\ heap' = Attach(heap, pc.node) /\ bad' = bad \cup AttachBad(heap, pc.node)
  /\ pc' = [pc EXCEPT !.step = "insert"]
  /\ UNCHANGED <<index, tok, nputs, panics, dropped>>
\* self.map.insert(KeyRef{&node.key}, node): user Hash of the new key.  The node already owns k and v;
\* on a panic only the replaced pair (a local) is dropped.  The node stays linked but unindexed (a leak).
PutInsert ==
  /\ pc.op = "put" /\ pc.step = "insert"
  /\ \/ CanPanic /\ Unwind({pc.rk, pc.rv} \ {0})
     \/ /\ LET m == Matches(heap, pc.k) IN
           \* HashMap::insert on an equal key keeps the OLD key pointer and replaces the value
           index' = IF m = {} THEN index \cup {[k |-> pc.k, kp |-> pc.node, n |-> pc.node]}
                    ELSE LET e == CHOOSE x \in m : TRUE IN (index \ {e}) \cup {[e EXCEPT !.n = pc.node]}
        /\ bad' = bad \cup LookupBad(heap, pc.k)
        /\ pc' = [pc EXCEPT !.step = "cb"]
        /\ UNCHANGED <<heap, tok, nputs, panics, dropped>>
\* eviction callback on the replaced pair (user code), then the pair is handed back as Evicted
PutCb ==
  /\ pc.op = "put" /\ pc.step = "cb"
  /\ IF pc.rk = 0 THEN /\ pc' = Idle /\ UNCHANGED <<heap, index, tok, nputs, bad, panics, dropped>>
     ELSE \/ CanPanic /\ Unwind({pc.rk, pc.rv})
          \/ /\ tok' = ReturnToks(tok, {pc.rk, pc.rv}) /\ pc' = Idle
             /\ UNCHANGED <<heap, index, nputs, bad, panics, dropped>>

(* ------------------------------- get ---------------------------------- *)
Get(k) ==
  /\ pc.op = "idle" /\ ~dropped
  /\ \/ CanPanic /\ Unwind({})
     \/ /\ LET m == Matches(heap, k) IN
           IF m = {} THEN heap' = heap /\ bad' = bad \cup LookupBad(heap, k)
           ELSE LET n == (CHOOSE e \in m : TRUE).n IN
                /\ heap' = Attach(Detach(heap, n), n)
                /\ bad' = bad \cup LookupBad(heap, k) \cup DetachBad(heap, n) \cup AttachBad(Detach(heap, n), n)
        /\ UNCHANGED <<index, tok, nputs, pc, panics, dropped>>

(* ------------------------------ remove -------------------------------- *)
\* map.remove(k) [user Hash/Eq]; detach; the node is moved out of its box (freed); callback [user];
\* the key is dropped in place, the value returned
StartRemove(k) ==
  /\ pc.op = "idle" /\ ~dropped
  /\ \/ CanPanic /\ Unwind({})
     \/ /\ bad' = bad \cup LookupBad(heap, k)
        /\ LET m == Matches(heap, k) IN
           IF m = {} THEN UNCHANGED <<heap, index, pc>>
           ELSE LET e == CHOOSE x \in m : TRUE IN
                /\ index' = index \ {e}
                /\ heap' = [Detach(heap, e.n) EXCEPT ![e.n].st = "freed"]
                /\ pc' = [op |-> "remove", step |-> "cb", rk |-> heap[e.n].key, rv |-> heap[e.n].val, dbad |-> DetachBad(heap, e.n)]
        /\ UNCHANGED <<tok, nputs, panics, dropped>>
RemoveCb ==
  /\ pc.op = "remove" /\ pc.step = "cb"
  /\ \/ CanPanic /\ Unwind({pc.rv} \ {0})          \* val is an initialised local; the key sits in a MaybeUninit: leaked
     \/ /\ tok' = ReturnToks(DropToks(tok, {pc.rk} \ {0}), {pc.rv} \ {0})
        /\ bad' = bad \cup pc.dbad \cup DropBad(tok, {pc.rk} \ {0})
        /\ pc' = Idle /\ UNCHANGED <<heap, index, nputs, panics, dropped>>

(* ---------------------------- remove_lru ------------------------------ *)
StartRemoveLru ==
  /\ pc.op = "idle" /\ ~dropped
  /\ LET node == heap[T].prev IN
     IF node = H THEN UNCHANGED vars
     ELSE \/ CanPanic /\ Unwind({})
          \/ /\ bad' = bad \cup KeyReadBad(heap, node) \cup LookupBad(heap, KeyValOf(heap, node))
             /\ LET m == Matches(heap, KeyValOf(heap, node)) IN
                IF m = {} THEN UNCHANGED <<heap, index, pc>>        \* returns None WITHOUT unlinking
                ELSE LET e == CHOOSE x \in m : TRUE IN
                     /\ index' = index \ {e}
                     /\ heap' = [Detach(heap, e.n) EXCEPT ![e.n].st = "freed"]
                     /\ pc' = [op |-> "remove_lru", step |-> "cb", rk |-> heap[e.n].key, rv |-> heap[e.n].val, dbad |-> DetachBad(heap, e.n)]
             /\ UNCHANGED <<tok, nputs, panics, dropped>>
RemoveLruCb ==
  /\ pc.op = "remove_lru" /\ pc.step = "cb"
  /\ \/ CanPanic /\ Unwind({pc.rk, pc.rv} \ {0})   \* both are initialised locals here
     \/ /\ tok' = ReturnToks(tok, {pc.rk, pc.rv} \ {0}) /\ bad' = bad \cup pc.dbad
        /\ pc' = Idle /\ UNCHANGED <<heap, index, nputs, panics, dropped>>

(* ----------------------------- Drop for RawLRU ------------------------ *)
\* drains the INDEX (not the list): every entry's node is freed and its pair dropped; then the sentinels
DropCache ==
  /\ pc.op = "idle" /\ ~dropped
  /\ LET ns == {e.n : e \in index}
         ks == {heap[n].key : n \in ns} \ {0}
         vs == {heap[n].val : n \in ns} \ {0}
     IN /\ heap' = [i \in Ptrs |-> IF i \in ns \/ i \in {H, T} THEN [heap[i] EXCEPT !.st = "freed"] ELSE heap[i]]
        /\ bad' = bad \cup (IF \E n \in ns : heap[n].st # "live" THEN {"double-free"} ELSE {})
                      \cup DropBad(tok, ks \cup vs)
                      \cup (IF Cardinality(ns) # Cardinality(index) THEN {"double-free"} ELSE {})
        /\ tok' = DropToks(tok, ks \cup vs)
  /\ index' = {} /\ dropped' = TRUE
  /\ UNCHANGED <<nputs, pc, panics>>

\* the micro-steps that continue an operation in progress
Micro == PutLookup \/ PutHit \/ PutHandback \/ PutFull \/ PutReplace \/ PutAlloc \/ PutAttach \/ PutInsert \/ PutCb
         \/ RemoveCb \/ RemoveLruCb
Next ==
  \/ \E k \in Keys : StartPut(k) \/ Get(k) \/ StartRemove(k)
  \/ Micro \/ StartRemoveLru \/ DropCache
Spec == Init /\ [][Next]_vars

(* ------------------------------ properties ---------------------------- *)
Safe == bad = {}

\* forward / backward walks between the sentinels (bounded)
RECURSIVE Walk(_, _, _, _)
Walk(h, n, fwd, fuel) ==
  IF fuel = 0 THEN <<>> ELSE
  LET x == IF fwd THEN h[n].next ELSE h[n].prev IN
  IF (fwd /\ x = T) \/ (~fwd /\ x = H) THEN <<>> ELSE <<x>> \o Walk(h, x, fwd, fuel - 1)
Fwd == Walk(heap, H, TRUE, MaxPuts + 1)
Bwd == Walk(heap, T, FALSE, MaxPuts + 1)
Rev(s) == [i \in 1..Len(s) |-> s[Len(s) + 1 - i]]
SeqSet(s) == {s[i] : i \in 1..Len(s)}
WFNow ==
  /\ Bwd = Rev(Fwd)
  /\ Cardinality(SeqSet(Fwd)) = Len(Fwd)
  /\ SeqSet(Fwd) = {e.n : e \in index} /\ Len(Fwd) = Cardinality(index)
  /\ \A e \in index : e.kp = e.n /\ heap[e.n].st = "live" /\ KeyValOf(heap, e.n) = e.k
  /\ Len(Fwd) <= Cap
\* C03's structural statement, for histories without panics
WF == (pc.op = "idle" /\ panics = 0 /\ ~dropped) => WFNow
\* even after panics: whatever is reachable is alive and initialised
Reachable == (pc.op = "idle" /\ ~dropped) =>
  /\ \A i \in 1..Len(Fwd) : heap[Fwd[i]].st = "live" /\ heap[Fwd[i]].key # 0 /\ tok[heap[Fwd[i]].key].st = "live" /\ tok[heap[Fwd[i]].val].st = "live"
  /\ \A e \in index : heap[e.n].st = "live" /\ heap[e.kp].st = "live"
\* C04 for panic-free histories: every minted object is retained by a live node, or returned, or dropped - exactly one
Accounted == (pc.op = "idle" /\ panics = 0) =>
  \A t \in Toks : tok[t].st = "live" <=> (~dropped /\ \E n \in NodeIds : heap[n].st = "live" /\ (heap[n].key = t \/ heap[n].val = t))
\* after the cache was dropped in a panic-free history nothing is alive any more (no leak)
NoLeak == (dropped /\ panics = 0) => \A t \in Toks : tok[t].st # "live"
=============================================================================
