----------------------------- MODULE MCTinyLFU -----------------------------
(***************************************************************************)
(* Model-checking / behaviour-generation instance of TinyLFU.tla.          *)
(* Besides the abstract estimator e it carries a COLLIDING sketch model:    *)
(* Pos[k] is the counter cell key k maps to in every row and DPos[k] its    *)
(* doorkeeper cell; cells are shared between keys that collide.  TLC        *)
(* explores every collision structure over the cells 1..Cells and checks    *)
(* the design-level theorem behind C11: for EVERY collision structure the   *)
(* estimate read through the shared cells never under-counts the exact aged *)
(* count, never exceeds 16, and is exact when the key collides with nobody. *)
(***************************************************************************)
EXTENDS TinyLFU, TLC, Json
CONSTANTS Keys, Samples, Cells, Emit
VARIABLES e, pos, cell, dcell, hist
vars == <<e, pos, cell, dcell, hist>>
Ops == [op : {"increment", "increment_hashed"}, k : Keys] \cup [op : {"try_reset", "clear", "ro"}]
\* pos: key -> cell (collision structure, chosen once, arbitrary)
Init == /\ e = TLInit(Keys) /\ hist = <<>>
        /\ pos \in [Keys -> 1..Cells]
        /\ cell = [c \in 1..Cells |-> 0] /\ dcell = [c \in 1..Cells |-> FALSE]
HalveCells == /\ cell' = [c \in 1..Cells |-> cell[c] \div 2] /\ dcell' = [c \in 1..Cells |-> FALSE]
\* concrete (colliding) counterpart of the abstract operations
CTick(cl, dc, w) == IF w + 1 >= Samples THEN <<[c \in 1..Cells |-> cl[c] \div 2], [c \in 1..Cells |-> FALSE]>> ELSE <<cl, dc>>
CInc(k) == LET p == pos[k]
               cl1 == IF dcell[p] THEN [cell EXCEPT ![p] = IF @ < 15 THEN @ + 1 ELSE @] ELSE cell
               dc1 == [dcell EXCEPT ![p] = TRUE]
           IN CTick(cl1, dc1, e.w)
AbsOp(o) == IF o.op = "increment_hashed" THEN [op |-> "increment", k |-> o.k] ELSE o
Step(o) ==
  /\ e' = TApply(AbsOp(o), e, Samples)
  /\ pos' = pos
  /\ hist' = Append(hist, o)
  /\ CASE o.op \in {"increment", "increment_hashed"} -> LET r == CInc(o.k) IN cell' = r[1] /\ dcell' = r[2]
       [] o.op = "try_reset" -> LET r == CTick(cell, dcell, e.w) IN cell' = r[1] /\ dcell' = r[2]
       [] o.op = "clear" -> cell' = [c \in 1..Cells |-> 0] /\ dcell' = [c \in 1..Cells |-> FALSE]
       [] OTHER -> cell' = cell /\ dcell' = dcell
Next == \E o \in Ops : Step(o)
Spec == Init /\ [][Next]_vars
View == <<e, pos, cell, dcell>>
CEst(k) == cell[pos[k]] + (IF dcell[pos[k]] THEN 1 ELSE 0)
Alone(k) == \A x \in Keys \ {k} : pos[x] # pos[k]
\* the one-sided error bound, for every collision structure
Inv == \A k \in Keys :
         /\ Exact(e, k) <= CEst(k) /\ CEst(k) <= 16
         /\ (Alone(k) => CEst(k) = Exact(e, k))
         /\ (k \in e.dk => dcell[pos[k]])             \* the doorkeeper never forgets
         /\ e.w < Samples
StepOK == TRUE
\* one STATE line per distinct ABSTRACT behaviour prefix is enough for the implementation
\* (its collision structure is its own): emit only for the identity collision structure
EmitState == IF Emit /\ (\A k \in Keys : pos[k] = 1) THEN PrintT(<<"STATE", ToJson([path |-> hist])>>) ELSE TRUE
EmitOps == IF Emit THEN PrintT(<<"OPS", ToJson([ops |-> Ops])>>) ELSE TRUE
ASSUME EmitOps
=============================================================================
