----------------------------- MODULE PairTrace -----------------------------
(***************************************************************************)
(* C17: behaviour is a function of configuration and history only.         *)
(* The specification has no hasher and no addresses: two executions of the *)
(* same driver that differ only in the BuildHasher (or in where entries    *)
(* are allocated) must produce the same trace, record by record: same      *)
(* return values, same callback log, same observation (every partition in  *)
(* order with values, len/cap/contains/peek, and - because object tokens   *)
(* are minted deterministically - the same object identities).             *)
(* For W-TinyLFU the comparison is conditioned on equal estimator answers: *)
(* the sketch digest (seed dependent) is ignored, and if the logged        *)
(* estimates differ the rest of that test is skipped.                      *)
(***************************************************************************)
EXTENDS Naturals, Sequences, Json, IOUtils, TLC
Rec1 == ndJsonDeserialize(IOEnv.TRACE)
Rec2 == ndJsonDeserialize(IOEnv.TRACE2)
VARIABLES l, skip
tvars == <<l, skip>>
Drop(r, fields) == [f \in DOMAIN r \ fields |-> r[f]]
NormObs(o) == IF "sketch" \in DOMAIN o THEN Drop(o, {"sketch"}) ELSE o
Norm(r) == IF "obs" \in DOMAIN r THEN [Drop(r, {"obs2"}) EXCEPT !.obs = NormObs(r.obs)] ELSE r
EstOf(r) == IF "obs" \in DOMAIN r /\ "est" \in DOMAIN r.obs THEN <<r.obs.est, r.obs.dk>> ELSE <<>>
TInit == l = 1 /\ skip = FALSE
Step ==
  /\ l <= Len(Rec1) /\ l <= Len(Rec2)
  /\ l' = l + 1
  /\ LET a == Rec1[l]
         b == Rec2[l]
         sk == IF a.op = "jump" THEN FALSE ELSE skip
     IN IF sk THEN skip' = TRUE
        ELSE IF EstOf(a) # EstOf(b) THEN skip' = TRUE /\ a.op = b.op
        ELSE skip' = FALSE /\ Norm(a) = Norm(b)
TSpec == TInit /\ [][Step]_tvars
Accepted ==
  LET d == TLCGet("stats").diameter IN
  IF d - 1 = Len(Rec1) /\ Len(Rec1) = Len(Rec2) THEN TRUE
  ELSE PrintT(<<"REJECT", d, ToJson(IF d <= Len(Rec1) THEN Rec1[d] ELSE [op |-> "length-mismatch"])>>) /\ FALSE
=============================================================================
