---------------------------- MODULE MCAdaptive ----------------------------
(* Model-checking / behaviour-generation instance of Adaptive.tla.         *)
(* VIEW = policy state; hist (the BFS-tree path) is outside the view.      *)
(* INVARIANT  Inv        : C01 bounds + well-formedness in every state     *)
(* ACTION_CONSTRAINT StepOK : generic step predicates on every transition  *)
(* INVARIANT  EmitState  : prints one STATE line per distinct state        *)
EXTENDS Adaptive, Props, Json
CONSTANTS Keys, Vals, Emit
VARIABLES st, hist
vars == <<st, hist>>
Ops == AOps(Keys, Vals)
V(s) == SpecView(AParts(s), ARes, ABounds, Size)
Init == st = AInit /\ hist = <<>>
Step(o) == st' = AApply(o, st).st /\ hist' = Append(hist, o)
Next == \E o \in Ops : Step(o)
Spec == Init /\ [][Next]_vars
View == st
Inv == AWellFormed(st) /\ C01View(V(st))
StepOK == LET o == hist'[Len(hist')]
              x == AApply(o, st)
          IN GenericStepOK(V(st), o @@ [ret |-> x.ret], V(x.st), AReadOnly, TRUE)
EmitState == IF Emit THEN PrintT(<<"STATE", ToJson([path |-> hist])>>) ELSE TRUE
EmitOps == IF Emit THEN PrintT(<<"OPS", ToJson([ops |-> Ops])>>) ELSE TRUE
ASSUME EmitOps
=============================================================================
