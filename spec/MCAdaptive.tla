---------------------------- MODULE MCAdaptive ----------------------------
(* Model-checking / behaviour-generation instance of Adaptive.tla.         *)
(* VIEW = policy state; hist (the BFS-tree path) is outside the view.      *)
(* INVARIANT  Inv        : C01 bounds + well-formedness in every state     *)
(* ACTION_CONSTRAINT StepOK : generic step predicates on every transition  *)
(* INVARIANT  EmitState  : prints one STATE line per distinct state        *)
EXTENDS Adaptive, Props, Json
CONSTANTS Keys, Vals, Emit
VARIABLES st, hist
vars == <<st, hist>>
Ops == AOps(Keys, Vals)
V(s) == SpecView(AParts(s), ARes, ABounds, Size)
Init == st = AInit /\ hist = <<>>
Step(o) == st' = AApply(o, st).st /\ hist' = Append(hist, o)
Next == \E o \in Ops : Step(o)
Spec == Init /\ [][Next]_vars
View == st
Inv == AWellFormed(st) /\ C01View(V(st))
\* refinement: the lengths of every list-level step are a step of the integer abstraction AdaptiveLen
\* (whose bounds Apalache proves inductive for EVERY size)
AL == INSTANCE AdaptiveLen WITH C <- Size, t1 <- Len(st.t1), t2 <- Len(st.t2), b1 <- Len(st.b1), b2 <- Len(st.b2), p <- st.p
StepOK == LET o == hist'[Len(hist')]
              x == AApply(o, st)
              n == x.st
          IN /\ GenericStepOK(V(st), o @@ [ret |-> x.ret], V(x.st), AReadOnly, TRUE)
             /\ Assert(AL!NextRel(Len(st.t1), Len(st.t2), Len(st.b1), Len(st.b2), st.p,
                                  Len(n.t1), Len(n.t2), Len(n.b1), Len(n.b2), n.p),
                       <<"step is not a step of AdaptiveLen", st, o, n>>)
EmitState == IF Emit THEN PrintT(<<"STATE", ToJson([path |-> hist])>>) ELSE TRUE
EmitOps == IF Emit THEN PrintT(<<"OPS", ToJson([ops |-> Ops])>>) ELSE TRUE
ASSUME EmitOps
=============================================================================
