------------------------------ MODULE TwoQHeap ------------------------------
(***************************************************************************)
(* Pointer-level model of TwoQueueCache (src/lru/two_queue.rs) on top of   *)
(* the crate-internal node primitives of src/lru/raw.rs.  Three intrusive  *)
(* lists share one node heap: A1 = recent, AM = frequent, G = ghost.       *)
(*                                                                         *)
(* The model is an INSTRUCTION MACHINE.  A running public operation is a   *)
(* sequence `prog` of micro-instructions over a small register file; each  *)
(* TLC step executes the head instruction.  The instructions are the       *)
(* statements of the unsafe code:                                          *)
(*   lookup l          map.get / contains on list l         (user code)    *)
(*   mapremove_k l     map.remove(&k)                       (user code)    *)
(*   mapremove_tail l  map.remove(&key of tail.prev)        (user code)    *)
(*   mapinsert l r     map.insert(key of node r, r)         (user code)    *)
(*   detach r / attach l r / alloc / swapval r / free r / lens / unwrap r  *)
(*   put_nonnull l r m, remove_lru_in l d   expand into the above exactly  *)
(*                     as the Rust helpers do, deciding on the list length *)
(*                     AT THAT MOMENT                                      *)
(*   br label          control flow of the public operation (Branch)       *)
(*   finish            hand back what is returned, drop the other locals   *)
(* "user code" = Hash / Eq of a key (or the BuildHasher): it may PANIC.    *)
(* Unwinding drops the Rust locals that own objects at that moment         *)
(* (regs.owned: the key / value arguments, pairs already moved out of a    *)
(* freed node) and nothing else: a node held as a raw pointer in a local   *)
(* is owned by NOBODY and leaks with its pair.                             *)
(*                                                                         *)
(* Checked by TLC (MCTwoQHeap): Safe (no use after free, no uninitialised  *)
(* read, no double drop / double free) after any number (<= MaxPanics) of  *)
(* panics; for panic-free histories all three chains are well formed, no   *)
(* key lives in two lists, every object is accounted for (C04), and the    *)
(* lists read off the heap are the lists of TwoQueue.tla (Refines).        *)
(* Bound to the real TwoQueueCache by TwoQHeapTrace.tla.                   *)
(***************************************************************************)
EXTENDS Naturals, Sequences, FiniteSets, TLC
CONSTANTS Keys, Size, Q, GS, MaxPuts, MaxPanics

Lists == {"A1", "AM", "G"}
HeadOf(l) == CASE l = "A1" -> 0 [] l = "AM" -> 2 [] l = "G" -> 4
TailOf(l) == HeadOf(l) + 1
CapOf(l) == IF l = "G" THEN GS ELSE Size
NodeIds == 6..(5 + MaxPuts)
Ptrs == 0..(5 + MaxPuts)
Toks == 1..(2 * MaxPuts)

VARIABLES heap,     \* [Ptrs -> node]
          index,    \* set of [l, k, n]: the three hash indexes
          tok,      \* [Toks -> [k, st]]; st \in {"unborn", "live", "dropped", "returned"}
          nputs, prog, regs, bad, panics
vars == <<heap, index, tok, nputs, prog, regs, bad, panics>>

Node(st, key, val, p, n) == [st |-> st, key |-> key, val |-> val, prev |-> p, next |-> n]
NoRegs == [op |-> "idle", k |-> 0, tk |-> 0, tv |-> 0, found |-> 0, ent |-> 0, vic |-> 0, rst |-> 0, new |-> 0, old |-> 0,
           rl |-> 0, fl |-> 0, owned |-> {}, ret |-> {}]
I(i, l, r, m) == [i |-> i, l |-> l, r |-> r, m |-> m]       \* instruction, list, register name, mode / label
Init ==
  /\ heap = [i \in Ptrs |-> IF i \in {0, 2, 4} THEN Node("sentinel", 0, 0, i, i + 1)
                            ELSE IF i \in {1, 3, 5} THEN Node("sentinel", 0, 0, i - 1, i)
                            ELSE Node("unalloc", 0, 0, 0, 0)]
  /\ index = {} /\ tok = [t \in Toks |-> [k |-> 0, st |-> "unborn"]]
  /\ nputs = 0 /\ prog = <<>> /\ regs = NoRegs /\ bad = {} /\ panics = 0
Idle == prog = <<>>

(* ------------------------------ helpers ------------------------------- *)
Usable(h, n) == h[n].st \in {"live", "sentinel"}
DerefBad(h, n) == IF Usable(h, n) THEN {} ELSE {"use-after-free"}
KeyReadBad(h, n) == DerefBad(h, n) \cup (IF h[n].st = "sentinel" \/ h[n].key = 0 THEN {"uninit-read"} ELSE {})
KeyValOf(h, n) == IF h[n].key = 0 THEN 0 ELSE tok[h[n].key].k
IdxOf(l) == {e \in index : e.l = l}
LenOf(l) == Cardinality(IdxOf(l))
Matches(h, l, k) == {e \in IdxOf(l) : e.k = k /\ KeyValOf(h, e.n) = k}
LookupBad(h, l, k) == UNION {KeyReadBad(h, e.n) : e \in {x \in IdxOf(l) : x.k = k}}
Detach(h, n) == LET p == h[n].prev  x == h[n].next IN [h EXCEPT ![p].next = x, ![x].prev = p]
DetachBad(h, n) == DerefBad(h, n) \cup DerefBad(h, h[n].prev) \cup DerefBad(h, h[n].next)
Attach(h, l, n) ==
  LET hd == HeadOf(l)
      first == h[hd].next
      h1 == [h EXCEPT ![n].next = first, ![n].prev = hd, ![hd].next = n]
  IN [h1 EXCEPT ![first].prev = n]
AttachBad(h, l, n) == DerefBad(h, n) \cup DerefBad(h, h[HeadOf(l)].next)
DropToks(tk, S) == [t \in Toks |-> IF t \in S THEN [tk[t] EXCEPT !.st = "dropped"] ELSE tk[t]]
DropBad(tk, S) == IF \E t \in S : tk[t].st # "live" THEN {"double-drop"} ELSE {}
ReturnToks(tk, S) == [t \in Toks |-> IF t \in S THEN [tk[t] EXCEPT !.st = "returned"] ELSE tk[t]]
CanPanic == panics < MaxPanics
R(name) == CASE name = "found" -> regs.found [] name = "ent" -> regs.ent [] name = "vic" -> regs.vic [] name = "rst" -> regs.rst
             [] name = "new" -> regs.new [] name = "old" -> regs.old
SetR(rg, name, v) == CASE name = "found" -> [rg EXCEPT !.found = v] [] name = "ent" -> [rg EXCEPT !.ent = v]
                       [] name = "vic" -> [rg EXCEPT !.vic = v] [] name = "rst" -> [rg EXCEPT !.rst = v]
                       [] name = "new" -> [rg EXCEPT !.new = v] [] name = "old" -> [rg EXCEPT !.old = v]
\* unwinding: the owned locals are dropped; raw node pointers are simply forgotten
Unwind ==
  /\ tok' = DropToks(tok, regs.owned) /\ bad' = bad \cup DropBad(tok, regs.owned)
  /\ prog' = <<>> /\ regs' = NoRegs /\ panics' = panics + 1
  /\ UNCHANGED <<heap, index, nputs>>
\* a panic that is not user code (an unwrap() on None): unwinds the same way.  In a history without an earlier
\* user-code panic it is a defect of its own (C05: no operation ever panics) and is recorded in `bad`
InternalPanic ==
  /\ tok' = DropToks(tok, regs.owned)
  /\ bad' = bad \cup DropBad(tok, regs.owned) \cup (IF panics = 0 THEN {"unwrap-on-none"} ELSE {})
  /\ prog' = <<>> /\ regs' = NoRegs /\ panics' = panics + 1
  /\ UNCHANGED <<heap, index, nputs>>
Rest == Tail(prog)
Cont(rg, seq) == prog' = seq \o Rest /\ regs' = rg

(* --------------------- control flow of the operations ------------------ *)
VictimOnGhostHit(rg) == IF rg.rl > Q \/ rg.fl = 0 THEN "A1" ELSE "AM"
VictimOnNewKey(rg) == IF (rg.rl >= Q /\ rg.rl > 0) \/ rg.fl = 0 THEN "A1" ELSE "AM"
PromoteTail == <<I("detach", "", "ent", 0), I("swapval", "", "ent", 0), I("put_nonnull", "AM", "ent", 0), I("finish", "", "", 1)>>
Branch(label, rg) ==
  CASE \* ---- put(k, v)
       label = "put0" ->           \* after frequent.map.get_mut(&k)
         IF rg.found # 0 THEN <<I("swapval", "", "found", 0), I("detach", "", "found", 0), I("attach", "AM", "found", 0), I("finish", "", "", 1)>>
         ELSE <<I("mapremove_k", "A1", "", 0), I("br", "", "", "put1")>>
    [] label = "put1" ->           \* after recent.remove_and_return_ent(&k)
         IF rg.ent # 0 THEN PromoteTail
         ELSE <<I("lens", "", "", 0), I("lookup", "G", "", 0), I("br", "", "", "put2")>>
    [] label = "put2" ->           \* after ghost.contains(&k)
         IF rg.found # 0 THEN
            IF rg.rl + rg.fl >= Size
            THEN <<I("remove_lru_in", VictimOnGhostHit(rg), "vic", 0), I("unwrap", "", "vic", 0),
                   I("put_nonnull", "G", "vic", 2), I("mapremove_k", "G", "", 0), I("br", "", "", "put3")>>
            ELSE <<I("mapremove_k", "G", "", 0), I("unwrap", "", "ent", 0)>> \o PromoteTail
         ELSE <<I("alloc", "", "", 0), I("br", "", "", "put4")>>
    [] label = "put3" ->           \* ghost hit in a full cache, after ghost.map.remove(&k)
         IF rg.ent = 0
         THEN IF rg.rst = 0 THEN <<I("finish", "", "", 0)>>
              ELSE <<I("swapval", "", "rst", 0), I("put_nonnull", "AM", "rst", 0), I("finish", "", "", 1)>>
         ELSE <<I("detach", "", "ent", 0), I("swapval", "", "ent", 0), I("put_nonnull", "AM", "ent", 0)>>
              \o (IF rg.rst = 0 THEN <<>> ELSE <<I("free", "", "rst", 1)>>) \o <<I("finish", "", "", 1)>>
    [] label = "put4" ->           \* brand-new key, node allocated
         IF rg.fl + rg.rl < Size THEN <<I("put_nonnull", "A1", "new", 2), I("br", "", "", "put5")>>
         ELSE <<I("remove_lru_in", VictimOnNewKey(rg), "vic", 0), I("unwrap", "", "vic", 0),
                I("put_nonnull", "A1", "new", 0), I("put_nonnull", "G", "vic", 1), I("finish", "", "", 0)>>
    [] label = "put5" ->
         IF rg.rst = 0 THEN <<I("finish", "", "", 0)>> ELSE <<I("put_nonnull", "G", "rst", 1), I("finish", "", "", 0)>>
       \* ---- get(k)
    [] label = "get0" ->           \* after frequent.get_(k)
         IF rg.found # 0 THEN <<I("detach", "", "found", 0), I("attach", "AM", "found", 0), I("finish", "", "", 0)>>
         ELSE <<I("lookup", "A1", "", 0), I("br", "", "", "get1")>>
    [] label = "get1" ->           \* after recent.peek_(k)
         IF rg.found # 0 THEN <<I("mapremove_k", "A1", "", 0), I("br", "", "", "get2")>> ELSE <<I("finish", "", "", 0)>>
    [] label = "get2" ->           \* move_to_frequent: recent.remove_and_return_ent(k) then frequent.put_nonnull
         \* (put_or_evict_nonnull: a pushed-out node would be forgotten - "will not reach" says the code)
         IF rg.ent # 0 THEN <<I("detach", "", "ent", 0), I("put_nonnull", "AM", "ent", 2), I("finish", "", "", 0)>>
         ELSE <<I("finish", "", "", 0)>>
       \* ---- remove(k): frequent, then recent, then ghost
    [] label = "rm0" -> IF rg.ent # 0 THEN <<I("detach", "", "ent", 0), I("free", "", "ent", 3), I("finish", "", "", 0)>>
                        ELSE <<I("mapremove_k", "A1", "", 0), I("br", "", "", "rm1")>>
    [] label = "rm1" -> IF rg.ent # 0 THEN <<I("detach", "", "ent", 0), I("free", "", "ent", 3), I("finish", "", "", 0)>>
                        ELSE <<I("mapremove_k", "G", "", 0), I("br", "", "", "rm2")>>
    [] label = "rm2" -> IF rg.ent # 0 THEN <<I("detach", "", "ent", 0), I("free", "", "ent", 3), I("finish", "", "", 0)>>
                        ELSE <<I("finish", "", "", 0)>>

(* --------------------------- starting an operation --------------------- *)
StartPutT(k, tk, tv) ==
  /\ Idle /\ nputs < MaxPuts
  /\ tok' = [tok EXCEPT ![tk] = [k |-> k, st |-> "live"], ![tv] = [k |-> 0, st |-> "live"]]
  /\ regs' = [NoRegs EXCEPT !.op = "put", !.k = k, !.tk = tk, !.tv = tv, !.owned = {tk, tv}]
  /\ prog' = <<I("lookup", "AM", "", 0), I("br", "", "", "put0")>>
  /\ nputs' = nputs + 1 /\ UNCHANGED <<heap, index, bad, panics>>
StartPut(k) == StartPutT(k, 2 * nputs + 1, 2 * nputs + 2)
StartGet(k) ==
  /\ Idle
  /\ regs' = [NoRegs EXCEPT !.op = "get", !.k = k]
  /\ prog' = <<I("lookup", "AM", "", 0), I("br", "", "", "get0")>>
  /\ UNCHANGED <<heap, index, tok, nputs, bad, panics>>
StartRemove(k) ==
  /\ Idle
  /\ regs' = [NoRegs EXCEPT !.op = "remove", !.k = k]
  /\ prog' = <<I("mapremove_k", "AM", "", 0), I("br", "", "", "rm0")>>
  /\ UNCHANGED <<heap, index, tok, nputs, bad, panics>>

(* ------------------------------ the machine ---------------------------- *)
Exec ==
  /\ ~Idle
  /\ LET ins == Head(prog) IN
     CASE ins.i = "lookup" ->
            \/ CanPanic /\ Unwind
            \/ /\ bad' = bad \cup LookupBad(heap, ins.l, regs.k)
               /\ LET m == Matches(heap, ins.l, regs.k) IN
                  Cont([regs EXCEPT !.found = IF m = {} THEN 0 ELSE (CHOOSE e \in m : TRUE).n], <<>>)
               /\ UNCHANGED <<heap, index, tok, nputs, panics>>
       [] ins.i = "mapremove_k" ->
            \/ CanPanic /\ Unwind
            \/ /\ bad' = bad \cup LookupBad(heap, ins.l, regs.k)
               /\ LET m == Matches(heap, ins.l, regs.k) IN
                  IF m = {} THEN Cont([regs EXCEPT !.ent = 0], <<>>) /\ UNCHANGED index
                  ELSE LET e == CHOOSE x \in m : TRUE IN index' = index \ {e} /\ Cont([regs EXCEPT !.ent = e.n], <<>>)
               /\ UNCHANGED <<heap, tok, nputs, panics>>
       [] ins.i = "mapremove_tail" ->      \* m = 1: the caller has checked that the chain is not empty; m = 0: unchecked
            LET node == heap[TailOf(ins.l)].prev
                ok == KeyValOf(heap, node)
                m == Matches(heap, ins.l, ok)
            IN \/ CanPanic /\ Unwind
               \/ /\ m = {} /\ ins.m # 1                 \* put_nonnull / replace_or_create_node: map.remove(..).unwrap() on None
                  /\ tok' = DropToks(tok, regs.owned)
                  /\ bad' = bad \cup KeyReadBad(heap, node) \cup LookupBad(heap, ins.l, ok) \cup DropBad(tok, regs.owned)
                                \cup (IF panics = 0 THEN {"unwrap-on-none"} ELSE {})
                  /\ prog' = <<>> /\ regs' = NoRegs /\ panics' = panics + 1 /\ UNCHANGED <<heap, index, nputs>>
               \/ /\ (m # {} \/ ins.m = 1)
                  /\ bad' = bad \cup KeyReadBad(heap, node) \cup LookupBad(heap, ins.l, ok)
                  /\ IF m = {}
                     THEN IF ins.m = 1 THEN Cont(SetR(regs, ins.r, 0), <<>>) /\ UNCHANGED <<heap, index, tok, nputs, panics>>   \* remove_lru_in: None
                          ELSE FALSE                                                                                          \* put_nonnull: .unwrap()
                     ELSE LET e == CHOOSE x \in m : TRUE IN
                          /\ index' = index \ {e} /\ Cont(SetR(regs, ins.r, e.n), <<>>)
                          /\ UNCHANGED <<heap, tok, nputs, panics>>
       [] ins.i = "mapinsert" ->
            \/ CanPanic /\ Unwind
            \/ /\ index' = index \cup {[l |-> ins.l, k |-> KeyValOf(heap, R(ins.r)), n |-> R(ins.r)]}
               /\ bad' = bad \cup KeyReadBad(heap, R(ins.r))
               /\ Cont(regs, <<>>) /\ UNCHANGED <<heap, tok, nputs, panics>>
       [] ins.i = "detach" ->
            /\ heap' = Detach(heap, R(ins.r)) /\ bad' = bad \cup DetachBad(heap, R(ins.r))
            /\ Cont(regs, <<>>) /\ UNCHANGED <<index, tok, nputs, panics>>
       [] ins.i = "attach" ->
            /\ heap' = Attach(heap, ins.l, R(ins.r)) /\ bad' = bad \cup AttachBad(heap, ins.l, R(ins.r))
            /\ Cont(regs, <<>>) /\ UNCHANGED <<index, tok, nputs, panics>>
       [] ins.i = "alloc" ->               \* Box::new(EntryNode::new(k, v)): the arguments move into the node
            LET n == CHOOSE i \in NodeIds : heap[i].st = "unalloc" /\ \A j \in NodeIds : j < i => heap[j].st # "unalloc" IN
            /\ heap' = [heap EXCEPT ![n] = Node("live", regs.tk, regs.tv, 0, 0)]
            /\ Cont([regs EXCEPT !.new = n, !.owned = @ \ {regs.tk, regs.tv}], <<>>)
            /\ UNCHANGED <<index, tok, nputs, bad, panics>>
       [] ins.i = "swapval" ->             \* mem::swap(&mut v, node.val)
            LET n == R(ins.r)  old == heap[n].val IN
            /\ heap' = [heap EXCEPT ![n].val = regs.tv] /\ bad' = bad \cup DerefBad(heap, n)
            /\ Cont([regs EXCEPT !.tv = old, !.owned = (@ \ {regs.tv}) \cup ({old} \ {0})], <<>>)
            /\ UNCHANGED <<index, tok, nputs, panics>>
       [] ins.i = "free" ->                \* *Box::from_raw(node): m = 0 pair dropped at once; 1 pair handed back; 3 key dropped, value handed back
            LET n == R(ins.r)  pair == {heap[n].key, heap[n].val} \ {0} IN
            /\ heap' = [heap EXCEPT ![n].st = "freed"]
            /\ bad' = bad \cup (IF heap[n].st # "live" THEN {"double-free"} ELSE {})
                          \cup (IF ins.m = 0 THEN DropBad(tok, pair) ELSE IF ins.m = 3 THEN DropBad(tok, {heap[n].key} \ {0}) ELSE {})
            /\ tok' = IF ins.m = 0 THEN DropToks(tok, pair) ELSE IF ins.m = 3 THEN DropToks(tok, {heap[n].key} \ {0}) ELSE tok
            /\ Cont(IF ins.m = 0 THEN regs
                    ELSE IF ins.m = 3 THEN [regs EXCEPT !.owned = @ \cup ({heap[n].val} \ {0}), !.ret = @ \cup ({heap[n].val} \ {0})]
                    ELSE [regs EXCEPT !.owned = @ \cup pair, !.ret = @ \cup pair], <<>>)
            /\ UNCHANGED <<index, nputs, panics>>
       [] ins.i = "lens" ->
            /\ Cont([regs EXCEPT !.rl = LenOf("A1"), !.fl = LenOf("AM")], <<>>)
            /\ UNCHANGED <<heap, index, tok, nputs, bad, panics>>
       [] ins.i = "unwrap" ->
            IF R(ins.r) = 0 THEN InternalPanic ELSE Cont(regs, <<>>) /\ UNCHANGED <<heap, index, tok, nputs, bad, panics>>
       [] ins.i = "mov" ->                 \* regs[ins.r] := regs[ins.l]  (l holds the source register name)
            /\ Cont(SetR(regs, ins.r, R(ins.l)), <<>>) /\ UNCHANGED <<heap, index, tok, nputs, bad, panics>>
       [] ins.i = "clr" ->
            /\ Cont(SetR(regs, ins.r, 0), <<>>) /\ UNCHANGED <<heap, index, tok, nputs, bad, panics>>
       [] ins.i = "put_nonnull" ->         \* m = 0: put_nonnull, PutResult dropped; 1: put_nonnull, PutResult handed back; 2: put_or_evict_nonnull -> rst
            /\ IF LenOf(ins.l) >= CapOf(ins.l)
               THEN Cont(regs, <<I("mapremove_tail", ins.l, "old", 0), I("detach", "", "old", 0), I("attach", ins.l, ins.r, 0),
                                  I("mapinsert", ins.l, ins.r, 0)>>
                                \o (IF ins.m = 2 THEN <<I("mov", "old", "rst", 0)>> ELSE <<I("free", "", "old", ins.m)>>))
               ELSE Cont(regs, <<I("attach", ins.l, ins.r, 0), I("mapinsert", ins.l, ins.r, 0)>>
                                \o (IF ins.m = 2 THEN <<I("clr", "", "rst", 0)>> ELSE <<>>))
            /\ UNCHANGED <<heap, index, tok, nputs, bad, panics>>
       [] ins.i = "remove_lru_in" ->
            /\ IF heap[TailOf(ins.l)].prev = HeadOf(ins.l)
               THEN Cont(SetR(regs, ins.r, 0), <<>>)
               ELSE Cont(regs, <<I("mapremove_tail", ins.l, ins.r, 1), I("detach_if", "", ins.r, 0)>>)
            /\ UNCHANGED <<heap, index, tok, nputs, bad, panics>>
       [] ins.i = "detach_if" ->
            IF R(ins.r) = 0 THEN Cont(regs, <<>>) /\ UNCHANGED <<heap, index, tok, nputs, bad, panics>>
            ELSE /\ heap' = Detach(heap, R(ins.r)) /\ bad' = bad \cup DetachBad(heap, R(ins.r))
                 /\ Cont(regs, <<>>) /\ UNCHANGED <<index, tok, nputs, panics>>
       [] ins.i = "br" ->
            /\ Cont(regs, Branch(ins.m, regs)) /\ UNCHANGED <<heap, index, tok, nputs, bad, panics>>
       [] ins.i = "finish" ->              \* m = 1: the (possibly swapped) value local is handed back as well
            LET ret == regs.ret \cup (IF ins.m = 1 THEN {regs.tv} \ {0} ELSE {})
                drop == regs.owned \ ret
            IN /\ tok' = ReturnToks(DropToks(tok, drop), ret) /\ bad' = bad \cup DropBad(tok, drop)
               /\ prog' = <<>> /\ regs' = NoRegs
               /\ UNCHANGED <<heap, index, nputs, panics>>

Next == (\E k \in Keys : StartPut(k) \/ StartGet(k) \/ StartRemove(k)) \/ Exec
Spec == Init /\ [][Next]_vars

(* ------------------------------ properties ---------------------------- *)
Safe == bad = {}
RECURSIVE Walk(_, _, _, _, _)
Walk(h, l, n, fwd, fuel) ==
  IF fuel = 0 THEN <<>> ELSE
  LET x == IF fwd THEN h[n].next ELSE h[n].prev IN
  IF (fwd /\ x = TailOf(l)) \/ (~fwd /\ x = HeadOf(l)) THEN <<>> ELSE <<x>> \o Walk(h, l, x, fwd, fuel - 1)
Fwd(l) == Walk(heap, l, HeadOf(l), TRUE, MaxPuts + 1)
Bwd(l) == Walk(heap, l, TailOf(l), FALSE, MaxPuts + 1)
Rev(s) == [i \in 1..Len(s) |-> s[Len(s) + 1 - i]]
SeqSet(s) == {s[i] : i \in 1..Len(s)}
WFList(l) ==
  /\ Bwd(l) = Rev(Fwd(l)) /\ Cardinality(SeqSet(Fwd(l))) = Len(Fwd(l))
  /\ SeqSet(Fwd(l)) = {e.n : e \in IdxOf(l)} /\ Len(Fwd(l)) = LenOf(l) /\ LenOf(l) <= CapOf(l)
  /\ \A e \in IdxOf(l) : heap[e.n].st = "live" /\ KeyValOf(heap, e.n) = e.k
\* C03 (structure) and C01 (bounds, a key in at most one list) for panic-free histories
WF == (Idle /\ panics = 0) =>
        /\ \A l \in Lists : WFList(l)
        /\ \A l1, l2 \in Lists : l1 # l2 => /\ SeqSet(Fwd(l1)) \cap SeqSet(Fwd(l2)) = {}
                                            /\ {e.k : e \in IdxOf(l1)} \cap {e.k : e \in IdxOf(l2)} = {}
        /\ LenOf("A1") + LenOf("AM") <= Size
\* after panics: whatever is reachable through a chain or an index is alive, and objects in reachable nodes are alive
Reachable == Idle =>
  \A l \in Lists :
     /\ \A i \in 1..Len(Fwd(l)) : heap[Fwd(l)[i]].st = "live" /\ heap[Fwd(l)[i]].key # 0
                                    /\ tok[heap[Fwd(l)[i]].key].st = "live" /\ tok[heap[Fwd(l)[i]].val].st = "live"
     /\ \A e \in IdxOf(l) : heap[e.n].st = "live"
\* C04 for panic-free histories: every minted object is in exactly one live node, or returned, or dropped
Accounted == (Idle /\ panics = 0) =>
  \A t \in Toks : tok[t].st = "live" <=> (\E n \in NodeIds : heap[n].st = "live" /\ (heap[n].key = t \/ heap[n].val = t))
=============================================================================
