---------------------------- MODULE SegmentedLen ----------------------------
(* Integer length abstraction of Segmented.tla: lengths of probationary (cap CA) and protected (cap CB). *)
EXTENDS Integers
CONSTANTS
  \* @type: Int;
  CA,
  \* @type: Int;
  CB
VARIABLES
  \* @type: Int;
  a,
  \* @type: Int;
  b
ConstInit == CA \in Nat /\ CA >= 1 /\ CB \in Nat /\ CB >= 1
NextRel(x, y, xn, yn) ==
  \/ xn = x /\ yn = y                                                  \* protected hit, misses, reads
  \/ x > 0 /\ (IF y >= CB THEN xn = x /\ yn = y ELSE xn = x - 1 /\ yn = y + 1)   \* probationary hit: promote (+ demote)
  \/ xn = (IF x >= CA THEN x ELSE x + 1) /\ yn = y                     \* new key (evicts probationary LRU when full)
  \/ xn = x /\ yn = (IF y >= CB THEN y ELSE y + 1)                     \* put_protected of a new key
  \/ x > 0 /\ xn = x - 1 /\ yn = y                                     \* remove / remove_lru_from
  \/ y > 0 /\ xn = x /\ yn = y - 1
  \/ xn = 0 /\ yn = 0                                                  \* purge
Init == a = 0 /\ b = 0
Next == NextRel(a, b, a', b')
IndInv == a >= 0 /\ b >= 0 /\ a <= CA /\ b <= CB
IndInit == a \in Int /\ b \in Int /\ IndInv
=============================================================================
